module verif

go 1.26
