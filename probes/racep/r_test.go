package racep

import (
	"sync"
	"testing"
	"testing/synctest"
	"time"
)

// two goroutines write x at different fake times, no sync between them
func TestSleepOrdered(t *testing.T) {
	synctest.Test(t, func(t *testing.T) {
		var x int
		var wg sync.WaitGroup
		wg.Add(2)
		go func() { defer wg.Done(); time.Sleep(1 * time.Millisecond); x = 1 }()
		go func() { defer wg.Done(); time.Sleep(2 * time.Millisecond); x = 2 }()
		wg.Wait()
		t.Log(x)
	})
}

// same but a root scheduler calls synctest.Wait and releases via channels (token passing)
func TestTokenPassing(t *testing.T) {
	synctest.Test(t, func(t *testing.T) {
		var x int
		a, b := make(chan struct{}), make(chan struct{})
		var wg sync.WaitGroup
		wg.Add(2)
		go func() { defer wg.Done(); <-a; x = 1 }()
		go func() { defer wg.Done(); <-b; x = 2 }()
		synctest.Wait()
		close(a)
		synctest.Wait()
		close(b)
		wg.Wait()
		t.Log(x)
	})
}
