package probe

import (
	"context"
	"testing"
	"testing/synctest"
	"time"

	"github.com/paulmach/osm/osmpbf"
)

func TestCancelRace(t *testing.T) {
	data, _ := file(30, 3)
	synctest.Test(t, func(t *testing.T) {
		d := &des{seed: 7}
		r := &desReader{d: d, data: data}
		ctx, cancel := context.WithCancel(context.Background())
		sc := osmpbf.New(ctx, r, 2)
		done := make(chan struct{})
		go func() {
			defer close(done)
			time.Sleep(1500 * time.Microsecond) // fake time: lands mid-scan
			cancel()
		}()
		n := 0
		for sc.Scan() {
			n++
		}
		t.Log("scanned", n, sc.Err())
		sc.Close()
		<-done
	})
}
