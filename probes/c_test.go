package probe

import (
	"context"
	"fmt"
	"io"
	"math/rand"
	"sort"
	"sync"
	"testing"
	"testing/synctest"
	"time"

	"github.com/paulmach/osm"
	"github.com/paulmach/osm/osmpbf"
)

// minimal scheduler: goroutines park at Yield; root releases one at a time after synctest.Wait
type sched struct {
	mu     sync.Mutex
	parked map[string]chan struct{}
	rng    *rand.Rand
	log    []string
}

func (s *sched) Yield(name string) {
	ch := make(chan struct{})
	s.mu.Lock()
	s.parked[name] = ch
	s.mu.Unlock()
	<-ch
}

func (s *sched) step() bool {
	synctest.Wait()
	s.mu.Lock()
	names := make([]string, 0, len(s.parked))
	for n := range s.parked {
		names = append(names, n)
	}
	sort.Strings(names)
	if len(names) == 0 {
		s.mu.Unlock()
		return false
	}
	pick := names[s.rng.Intn(len(names))]
	ch := s.parked[pick]
	delete(s.parked, pick)
	s.log = append(s.log, pick)
	s.mu.Unlock()
	close(ch)
	return true
}

type simReader struct {
	s    *sched
	data []byte
	pos  int
}

func (r *simReader) Read(p []byte) (int, error) {
	r.s.Yield("reader")
	if r.pos >= len(r.data) {
		return 0, io.EOF
	}
	n := copy(p, r.data[r.pos:])
	if n > 7 {
		n = 7
	}
	r.pos += n
	return n, nil
}

func runOnce(t *testing.T, seed int64, procs int, data []byte) (string, int) {
	var out string
	var steps int
	synctest.Test(t, func(t *testing.T) {
		s := &sched{parked: map[string]chan struct{}{}, rng: rand.New(rand.NewSource(seed))}
		r := &simReader{s: s, data: data}
		sc := osmpbf.New(context.Background(), r, procs)
		sc.FilterNode = func(n *osm.Node) bool {
			s.Yield(fmt.Sprintf("filter-block-%d", (int64(n.ID)-1)/3))
			return true
		}
		done := make(chan struct{})
		var ids []int64
		go func() {
			defer close(done)
			for {
				s.Yield("consumer")
				if !sc.Scan() {
					break
				}
				ids = append(ids, int64(sc.Object().(*osm.Node).ID))
			}
			sc.Close()
		}()
		for {
			select {
			case <-done:
				out = fmt.Sprint(ids, sc.Err(), s.log)
				steps = len(s.log)
				return
			default:
			}
			if !s.step() {
				// nothing parked: either done or deadlock
				select {
				case <-done:
				case <-time.After(time.Hour):
					t.Fatal("deadlock")
				}
			}
		}
	})
	return out, steps
}

func TestSched(t *testing.T) {
	data, _ := file(12, 3)
	start := time.Now()
	runs := 0
	total := 0
	for seed := int64(0); seed < 40; seed++ {
		for _, procs := range []int{1, 3, 12} {
			a, st := runOnce(t, seed, procs, data)
			b, _ := runOnce(t, seed, procs, data)
			if a != b {
				t.Fatalf("nondeterministic seed=%d procs=%d\n%s\n%s", seed, procs, a, b)
			}
			runs += 2
			total += 2 * st
		}
	}
	t.Logf("%d runs, %d steps in %v", runs, total, time.Since(start))
}
