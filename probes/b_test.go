package probe

import (
	"bytes"
	"context"
	"io"
	"testing"

	"github.com/paulmach/osm/osmpbf"
)

type countingReader struct {
	r io.Reader
	n int
}

func (c *countingReader) Read(p []byte) (int, error) { n, err := c.r.Read(p); c.n += n; return n, err }

func file(blocks, per int) ([]byte, []int) {
	var b []byte
	var offs []int
	b = append(b, headerBlock()...)
	for i := 0; i < blocks; i++ {
		offs = append(offs, len(b))
		b = append(b, denseBlock(int64(1+i*per), per, i%2 == 0)...)
	}
	offs = append(offs, len(b))
	return b, offs
}

func TestBasic(t *testing.T) {
	data, offs := file(20, 3)
	for _, procs := range []int{1, 3, 16} {
		s := osmpbf.New(context.Background(), bytes.NewReader(data), procs)
		n := 0
		for s.Scan() {
			n++
			if int64(s.Object().ObjectID().Ref()) != int64(n) {
				t.Fatalf("order: %v at %d", s.Object().ObjectID(), n)
			}
		}
		t.Log(procs, n, s.Err(), s.FullyScannedBytes(), offs[len(offs)-2])
		s.Close()
	}
}

func TestCloseConsumes(t *testing.T) {
	data, _ := file(200, 3)
	for _, procs := range []int{1, 3} {
		cr := &countingReader{r: bytes.NewReader(data)}
		s := osmpbf.New(context.Background(), cr, procs)
		s.Scan()
		before := cr.n
		s.Close()
		t.Logf("procs=%d total=%d read before close=%d after close=%d err=%v scan=%v", procs, len(data), before, cr.n, s.Err(), s.Scan())
	}
}

func TestCut(t *testing.T) {
	data, offs := file(3, 2)
	for cut := 0; cut <= len(data); cut++ {
		s := osmpbf.New(context.Background(), bytes.NewReader(data[:cut]), 2)
		n := 0
		for s.Scan() {
			n++
		}
		err := s.Err()
		s.Close()
		boundary := cut == 0
		for _, o := range offs {
			if o == cut {
				boundary = true
			}
		}
		if (err == nil) != boundary {
			t.Logf("cut=%d n=%d err=%v boundary=%v offs=%v", cut, n, err, boundary, offs)
		}
	}
}
