package h

import (
	"context"
	"fmt"
	"strings"
	"testing"
	"testing/synctest"
	"time"

	"github.com/paulmach/osm"
	"github.com/paulmach/osm/osmpbf"
	"github.com/paulmach/osm/osmxml"
	"github.com/paulmach/osm/simrt"
)

type scanner interface {
	Scan() bool
	Object() osm.Object
	Err() error
	Close() error
}

// stop kinds: 0 none, 1 Close, 2 cancel by scanning goroutine, 3 cancel by other goroutine at sim instant
func c07run(t *testing.T, seed uint64, xml bool, procs, total, k, stop int, cancelAt int64, data []byte) (msgs []string) {
	defer func() {
		if r := recover(); r != nil {
			msgs = append(msgs, "HANG/PANIC: "+fmt.Sprint(r))
		}
	}()
	bad := func(f string, a ...interface{}) { msgs = append(msgs, fmt.Sprintf(f, a...)) }
	synctest.Test(t, func(t *testing.T) {
		sim := &simrt.Sim{Seed: seed, MaxYields: 200000}
		simrt.Start(sim)
		defer simrt.Stop()
		simrt.Register("consumer")
		ctx, cancel := context.WithCancel(context.Background())
		defer cancel()
		r := &simReader{data: data, chunk: 1 + int(seed%53)}
		var sc scanner
		if xml {
			sc = osmxml.New(ctx, r)
		} else {
			sc = osmpbf.New(ctx, r, procs)
		}
		var cancelInvoke, cancelReturn int64 = -1, -1
		done := make(chan struct{})
		if stop == 3 {
			go func() {
				defer close(done)
				time.Sleep(time.Duration(cancelAt))
				cancelInvoke = time.Now().UnixNano()
				cancel()
				cancelReturn = time.Now().UnixNano()
			}()
		} else {
			close(done)
		}
		type scanRec struct {
			inv, ret int64
			ok       bool
			id       int64
		}
		var recs []scanRec
		doScan := func() bool {
			simrt.Yield("consumer.Scan")
			rec := scanRec{inv: time.Now().UnixNano()}
			rec.ok = sc.Scan()
			rec.ret = time.Now().UnixNano()
			if rec.ok {
				rec.id = int64(sc.Object().ObjectID().Ref())
			}
			recs = append(recs, rec)
			return rec.ok
		}
		n := 0
		limit := k
		if stop == 0 || stop == 3 {
			limit = total + 3
		}
		for n < limit && doScan() {
			n++
		}
		var stopRet int64 = -1
		switch stop {
		case 1:
			simrt.Yield("consumer.Close")
			sc.Close()
			stopRet = time.Now().UnixNano()
		case 2:
			cancel()
			stopRet = time.Now().UnixNano()
		}
		<-done
		if stop == 3 {
			stopRet = cancelReturn
		}
		// post-stop calls
		a := doScan()
		e1 := sc.Err()
		sc.Close()
		b := doScan()
		e2 := sc.Err()
		sc.Close()
		time.Sleep(time.Hour) // quiesce
		live := sim.Live()

		// ---- oracle over the history ----
		next := int64(1)
		sawFalse := false
		for i, rc := range recs {
			afterStop := stopRet >= 0 && rc.inv > stopRet
			overlaps := stop == 3 && rc.inv <= cancelReturn && rc.ret >= cancelInvoke
			switch {
			case sawFalse && rc.ok:
				bad("scan %d true after a false", i)
			case afterStop && rc.ok:
				bad("scan %d returned true although invoked after the stop returned (inv=%d stopRet=%d)", i, rc.inv, stopRet)
			case rc.ok && rc.id != next:
				bad("scan %d id %d want %d", i, rc.id, next)
			case !rc.ok && !afterStop && !overlaps && !sawFalse && next <= int64(total):
				bad("scan %d false before stop and before end (next=%d total=%d stop=%d)", i, next, total, stop)
			}
			if rc.ok {
				next++
			} else {
				sawFalse = true
			}
		}
		_ = a
		_ = b
		complete := next > int64(total)
		// Err expectations
		wantErr := func(e error, closed bool) {
			switch {
			case complete && stop == 0:
				if e != nil {
					bad("Err after complete scan = %v", e)
				}
			case stop == 1:
				if e != osm.ErrScannerClosed && !(complete && e == nil) {
					bad("Err after Close = %v (complete=%v)", e, complete)
				}
			case stop == 2 || stop == 3:
				okc := e == context.Canceled || (closed && e == osm.ErrScannerClosed) || (complete && e == nil)
				if !okc {
					bad("Err after cancel = %v (closed=%v complete=%v)", e, closed, complete)
				}
			}
		}
		wantErr(e1, false)
		wantErr(e2, true)
		if live != 0 {
			bad("%d library goroutines still alive", live)
		}
	})
	return
}

func xmlDoc(n int) []byte {
	var sb strings.Builder
	sb.WriteString(`<?xml version="1.0"?><osm version="0.6">`)
	for i := 1; i <= n; i++ {
		fmt.Fprintf(&sb, `<node id="%d" lat="1.5" lon="2.5" version="1"><tag k="a" v="b"/></node>`, i)
	}
	sb.WriteString(`</osm>`)
	return []byte(sb.String())
}

func TestStopModel(t *testing.T) {
	classes := map[string]int{}
	var first string
	runs := 0
	blocks, per := 8, 3
	pbf, _ := file(blocks, per)
	xdoc := xmlDoc(blocks * per)
	total := blocks * per
	for seed := uint64(1); seed <= 25; seed++ {
		for _, xml := range []bool{false, true} {
			for _, procs := range []int{1, 3, 11} {
				if xml && procs != 1 {
					continue
				}
				for stop := 0; stop <= 3; stop++ {
					for _, k := range []int{0, 1, 4, total, total + 1} {
						data := pbf
						if xml {
							data = xdoc
						}
						cancelAt := int64(k*7+1) * 5 * simrt.Q
						msgs := c07run(t, seed*31+uint64(k), xml, procs, total, k, stop, cancelAt, data)
						runs++
						for _, m := range msgs {
							c := m
							if len(c) > 50 {
								c = c[:50]
							}
							classes[fmt.Sprintf("xml=%v %s", xml, c)]++
							if first == "" {
								first = fmt.Sprintf("seed=%d xml=%v procs=%d stop=%d k=%d: %s", seed, xml, procs, stop, k, m)
							}
						}
					}
				}
			}
		}
	}
	t.Logf("runs=%d classes=%v", runs, classes)
	t.Logf("first: %s", first)
}
