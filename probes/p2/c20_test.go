package h

import (
	"context"
	"fmt"
	"io"
	"net/http"
	"net/url"
	"sort"
	"strings"
	"testing"
	"time"

	"github.com/paulmach/osm"
	"github.com/paulmach/osm/osmapi"
)

type apiSrv struct {
	status int
	body   string
	reqs   []*http.Request
}

func (s *apiSrv) RoundTrip(r *http.Request) (*http.Response, error) {
	s.reqs = append(s.reqs, r)
	return &http.Response{StatusCode: s.status, Body: io.NopCloser(strings.NewReader(s.body)), Header: http.Header{}}, nil
}

type endpoint struct {
	name   string
	path   string            // expected path under base
	query  map[string]string // expected query
	kind   string            // element kind expected in response: node/way/relation/changeset/note/user/osm/change
	single bool
	call   func(ds *osmapi.Datasource) (int, error) // returns number of elements
}

func canonQuery(q url.Values) string {
	var ks []string
	for k, vs := range q {
		for _, v := range vs {
			ks = append(ks, k+"="+v)
		}
	}
	sort.Strings(ks)
	return strings.Join(ks, "&")
}

func TestAPI(t *testing.T) {
	ctx := context.Background()
	at := time.Date(2016, 1, 2, 3, 4, 5, 0, time.UTC)
	b := &osm.Bounds{MinLat: 1, MaxLat: 2, MinLon: 3, MaxLon: 4}
	cnt := func(n int, err error) (int, error) { return n, err }
	one := func(o interface{}, err error) (int, error) {
		if err != nil {
			return 0, err
		}
		return 1, nil
	}
	eps := []endpoint{
		{"Node", "/node/7", nil, "node", true, func(ds *osmapi.Datasource) (int, error) { return one(ds.Node(ctx, 7)) }},
		{"Node+At", "/node/7", map[string]string{"at": "2016-01-02T03:04:05Z"}, "node", true, func(ds *osmapi.Datasource) (int, error) { return one(ds.Node(ctx, 7, osmapi.At(at))) }},
		{"Nodes", "/nodes", map[string]string{"nodes": "1,2,3"}, "node", false, func(ds *osmapi.Datasource) (int, error) { r, e := ds.Nodes(ctx, []osm.NodeID{1, 2, 3}); return cnt(len(r), e) }},
		{"NodeVersion", "/node/7/3", nil, "node", true, func(ds *osmapi.Datasource) (int, error) { return one(ds.NodeVersion(ctx, 7, 3)) }},
		{"NodeHistory", "/node/7/history", nil, "node", false, func(ds *osmapi.Datasource) (int, error) { r, e := ds.NodeHistory(ctx, 7); return cnt(len(r), e) }},
		{"NodeWays", "/node/7/ways", nil, "way", false, func(ds *osmapi.Datasource) (int, error) { r, e := ds.NodeWays(ctx, 7); return cnt(len(r), e) }},
		{"NodeRelations", "/node/7/relations", nil, "relation", false, func(ds *osmapi.Datasource) (int, error) { r, e := ds.NodeRelations(ctx, 7); return cnt(len(r), e) }},
		{"Way", "/way/8", nil, "way", true, func(ds *osmapi.Datasource) (int, error) { return one(ds.Way(ctx, 8)) }},
		{"Ways", "/ways", map[string]string{"ways": "4,5"}, "way", false, func(ds *osmapi.Datasource) (int, error) { r, e := ds.Ways(ctx, []osm.WayID{4, 5}); return cnt(len(r), e) }},
		{"WayFull", "/way/8/full", nil, "osm", false, func(ds *osmapi.Datasource) (int, error) { r, e := ds.WayFull(ctx, 8); if e != nil { return 0, e }; return len(r.Ways), nil }},
		{"WayVersion", "/way/8/2", nil, "way", true, func(ds *osmapi.Datasource) (int, error) { return one(ds.WayVersion(ctx, 8, 2)) }},
		{"WayHistory", "/way/8/history", nil, "way", false, func(ds *osmapi.Datasource) (int, error) { r, e := ds.WayHistory(ctx, 8); return cnt(len(r), e) }},
		{"WayRelations", "/way/8/relations", nil, "relation", false, func(ds *osmapi.Datasource) (int, error) { r, e := ds.WayRelations(ctx, 8); return cnt(len(r), e) }},
		{"Relation", "/relation/9", nil, "relation", true, func(ds *osmapi.Datasource) (int, error) { return one(ds.Relation(ctx, 9)) }},
		{"Relations", "/relations", map[string]string{"relations": "6"}, "relation", false, func(ds *osmapi.Datasource) (int, error) { r, e := ds.Relations(ctx, []osm.RelationID{6}); return cnt(len(r), e) }},
		{"RelationFull", "/relation/9/full", nil, "osm", false, func(ds *osmapi.Datasource) (int, error) { r, e := ds.RelationFull(ctx, 9); if e != nil { return 0, e }; return len(r.Relations), nil }},
		{"RelationVersion", "/relation/9/4", nil, "relation", true, func(ds *osmapi.Datasource) (int, error) { return one(ds.RelationVersion(ctx, 9, 4)) }},
		{"RelationHistory", "/relation/9/history", nil, "relation", false, func(ds *osmapi.Datasource) (int, error) { r, e := ds.RelationHistory(ctx, 9); return cnt(len(r), e) }},
		{"RelationRelations", "/relation/9/relations", nil, "relation", false, func(ds *osmapi.Datasource) (int, error) { r, e := ds.RelationRelations(ctx, 9); return cnt(len(r), e) }},
		{"Changeset", "/changeset/11", nil, "changeset", true, func(ds *osmapi.Datasource) (int, error) { return one(ds.Changeset(ctx, 11)) }},
		{"ChangesetWithDiscussion", "/changeset/11", map[string]string{"include_discussion": "true"}, "changeset", true, func(ds *osmapi.Datasource) (int, error) { return one(ds.ChangesetWithDiscussion(ctx, 11)) }},
		{"ChangesetDownload", "/changeset/11/download", nil, "change", false, func(ds *osmapi.Datasource) (int, error) { r, e := ds.ChangesetDownload(ctx, 11); if e != nil { return 0, e }; if r.Create == nil { return 0, nil }; return len(r.Create.Nodes), nil }},
		{"Map", "/map", map[string]string{"bbox": "3.000000,1.000000,4.000000,2.000000"}, "osm", false, func(ds *osmapi.Datasource) (int, error) { r, e := ds.Map(ctx, b); if e != nil { return 0, e }; return len(r.Nodes), nil }},
		{"Note", "/notes/12", nil, "note", true, func(ds *osmapi.Datasource) (int, error) { return one(ds.Note(ctx, 12)) }},
		{"Notes", "/notes", map[string]string{"bbox": "3.000000,1.000000,4.000000,2.000000", "limit": "5", "closed": "-1"}, "note", false, func(ds *osmapi.Datasource) (int, error) { r, e := ds.Notes(ctx, b, osmapi.Limit(5), osmapi.MaxDaysClosed(-1)); return cnt(len(r), e) }},
		{"NotesSearch", "/notes/search", map[string]string{"q": "a b&c"}, "note", false, func(ds *osmapi.Datasource) (int, error) { r, e := ds.NotesSearch(ctx, "a b&c"); return cnt(len(r), e) }},
		{"User", "/user/13", nil, "user", true, func(ds *osmapi.Datasource) (int, error) { return one(ds.User(ctx, 13)) }},
	}
	elem := map[string]string{
		"node": `<node id="1" version="1" lat="1" lon="1"/>`, "way": `<way id="1" version="1"/>`, "relation": `<relation id="1" version="1"/>`,
		"changeset": `<changeset id="1"/>`, "note": `<note><id>1</id></note>`, "user": `<user id="1"/>`,
	}
	body := func(kind string, n int) string {
		switch kind {
		case "osm":
			return `<osm>` + strings.Repeat(elem["node"]+elem["way"]+elem["relation"], n) + `</osm>`
		case "change":
			return `<osmChange><create>` + strings.Repeat(elem["node"], n) + `</create></osmChange>`
		}
		return `<osm>` + strings.Repeat(elem[kind], n) + `</osm>`
	}
	statuses := []int{200, 400, 401, 403, 404, 405, 409, 410, 412, 414, 429, 500, 501, 502, 503, 504, 509}
	problems := map[string]int{}
	var first string
	bad := func(f string, a ...interface{}) {
		m := fmt.Sprintf(f, a...)
		problems[m]++
		if first == "" {
			first = m
		}
	}
	cells := 0
	for _, base := range []string{"http://sim.example/api/0.6", ""} {
		for _, ep := range eps {
			for _, st := range statuses {
				for _, n := range []int{0, 1, 3} {
					srv := &apiSrv{status: st, body: body(ep.kind, n)}
					ds := &osmapi.Datasource{BaseURL: base, Client: &http.Client{Transport: srv}}
					got, err := ep.call(ds)
					cells++
					if len(srv.reqs) != 1 {
						bad("%s: %d requests", ep.name, len(srv.reqs))
						continue
					}
					rq := srv.reqs[0]
					wantBase := base
					if wantBase == "" {
						wantBase = "http://api.openstreetmap.org/api/0.6"
					}
					wb, _ := url.Parse(wantBase)
					wq := url.Values{}
					for k, v := range ep.query {
						wq.Set(k, v)
					}
					if rq.Method != "GET" || rq.URL.Host != wb.Host || rq.URL.Path != wb.Path+ep.path || canonQuery(rq.URL.Query()) != canonQuery(wq) {
						bad("%s: request %s %s, want path %s query %s", ep.name, rq.Method, rq.URL.String(), wb.Path+ep.path, canonQuery(wq))
					}
					switch {
					case st == 200:
						if ep.single && n != 1 {
							if err == nil {
								bad("%s: single-element call accepted %d elements", ep.name, n)
							}
						} else if err != nil {
							bad("%s: 200 with %d elements: err %v", ep.name, n, err)
						} else if got != n && !ep.single {
							bad("%s: got %d elements want %d", ep.name, got, n)
						}
					default:
						var ok bool
						switch st {
						case 404:
							_, ok = err.(*osmapi.NotFoundError)
						case 403:
							_, ok = err.(*osmapi.ForbiddenError)
						case 410:
							_, ok = err.(*osmapi.GoneError)
						case 414:
							_, ok = err.(*osmapi.RequestURITooLongError)
						default:
							e, is := err.(*osmapi.UnexpectedStatusCodeError)
							ok = is && e.Code == st
						}
						if !ok {
							bad("%s: status %d mapped to %T %v", ep.name, st, err, err)
						}
						if ds.NotFound(err) != (st == 404) {
							bad("%s: NotFound(%d)=%v", ep.name, st, ds.NotFound(err))
						}
						if got != 0 {
							bad("%s: partial data on status %d", ep.name, st)
						}
					}
				}
			}
		}
	}
	t.Logf("cells=%d problems=%d", cells, len(problems))
	for m, n := range problems {
		t.Logf("%4d  %s", n, m)
	}
}
