package h

import (
	"fmt"
	"testing"
)

func runSafe(t *testing.T, c cfg) (res result, hang string) {
	defer func() {
		if r := recover(); r != nil {
			hang = fmt.Sprint(r)
		}
	}()
	res = run(t, c)
	return
}

func TestHang(t *testing.T) {
	data, _ := file(60, 3)
	hangs := 0
	for seed := uint64(1); seed <= 20; seed++ {
		c := cfg{seed: seed, procs: 3, data: data, stopAfter: 2,
			speed: func(name string) int64 {
				if name == "consumer" {
					return 400
				}
				return 2
			}}
		_, hang := runSafe(t, c)
		if hang != "" {
			hangs++
			if hangs == 1 {
				t.Log("first hang:", hang[:min(len(hang), 300)])
			}
		}
	}
	t.Logf("hangs: %d/20", hangs)
}
