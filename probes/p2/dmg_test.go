package h

import (
	"bytes"
	"compress/zlib"
	"context"
	"encoding/binary"
	"fmt"
	"sort"
	"testing"
	"testing/synctest"
	"time"

	"github.com/paulmach/osm"
	"github.com/paulmach/osm/osmpbf"
	"github.com/paulmach/osm/simrt"
)

type outcome struct {
	ids     []int64
	err     error
	crash   string
	hang    string
}

func scanData(t *testing.T, data []byte, procs int, seed uint64) (o outcome) {
	defer func() {
		if r := recover(); r != nil {
			o.hang = fmt.Sprint(r)
		}
	}()
	synctest.Test(t, func(t *testing.T) {
		ctx, cancel := context.WithCancel(context.Background())
		defer cancel()
		var abortReason string
		sim := &simrt.Sim{Seed: seed, MaxYields: 20000, OnAbort: func(r string) { abortReason = r; cancel() }}
		simrt.Start(sim)
		defer simrt.Stop()
		simrt.Register("consumer")
		r := &simReader{data: data, chunk: 1 + int(seed%97)}
		sc := osmpbf.New(ctx, r, procs)
		func() {
			defer func() {
				if r := recover(); r != nil {
					o.crash = fmt.Sprintf("caller: %v", r)
				}
			}()
			n := 0
			for sc.Scan() {
				n++
				if n > 10000 {
					o.crash = "runaway"
					break
				}
				o.ids = append(o.ids, int64(sc.Object().ObjectID().Ref()))
			}
			o.err = sc.Err()
		}()
		// give goroutines a chance, then close
		time.Sleep(time.Minute)
		if len(sim.Crashes) > 0 {
			o.crash = fmt.Sprint(sim.Crashes)
		} else if abortReason == "budget" {
			o.hang = "yield budget exceeded"
		}
		done := make(chan struct{})
		go func() { defer close(done); defer func() { recover() }(); sc.Close() }()
		select {
		case <-done:
		case <-time.After(time.Hour):
			if o.crash == "" {
				o.hang = "Close did not return"
			}
		}
		_ = osm.TypeNode
	})
	return
}

// block builders ------------------------------------------------------------

func rawFileBlock(typ string, blob []byte) []byte {
	hdr := &W{}
	hdr.Bytes(1, []byte(typ))
	hdr.Varint(3, uint64(len(blob)))
	out := make([]byte, 4)
	binary.BigEndian.PutUint32(out, uint32(len(hdr.b)))
	out = append(out, hdr.b...)
	return append(out, blob...)
}

func zblob(payload []byte, rawSize int, mut func([]byte) []byte) []byte {
	var zb bytes.Buffer
	zw := zlib.NewWriter(&zb)
	zw.Write(payload)
	zw.Close()
	z := zb.Bytes()
	if mut != nil {
		z = mut(z)
	}
	b := &W{}
	b.Varint(2, uint64(rawSize))
	b.Bytes(3, z)
	return b.b
}

func rawblob(payload []byte) []byte { b := &W{}; b.Bytes(1, payload); return b.b }

func strTable(ss ...string) []byte {
	st := &W{}
	for _, s := range ss {
		st.Bytes(1, []byte(s))
	}
	return st.b
}

func primBlock(st []byte, groups ...[]byte) []byte {
	pb := &W{}
	pb.Bytes(1, st)
	for _, g := range groups {
		pb.Bytes(2, g)
	}
	return pb.b
}

type denseSpec struct {
	ids, lats, lons []int64
	usids           []int64
	kv              []uint64
	noIDs, noLat, noLon bool
}

func denseGroup(d denseSpec) []byte {
	w := &W{}
	if !d.noIDs {
		w.Bytes(1, packedS(d.ids))
	}
	if d.usids != nil {
		inf := &W{}
		inf.Bytes(5, packedS(d.usids))
		w.Bytes(5, inf.b)
	}
	if !d.noLat {
		w.Bytes(8, packedS(d.lats))
	}
	if !d.noLon {
		w.Bytes(9, packedS(d.lons))
	}
	if d.kv != nil {
		w.Bytes(10, packedU(d.kv))
	}
	g := &W{}
	g.Bytes(2, w.b)
	return g.b
}

func goodPayload(start int64) []byte {
	return primBlock(strTable("", "k", "v"), denseGroup(denseSpec{ids: []int64{start, 1}, lats: []int64{1, 1}, lons: []int64{2, 2}, kv: []uint64{1, 2, 0, 0}}))
}

func wayGroup(build func(m *W)) []byte {
	m := &W{}
	m.Varint(1, 900)
	build(m)
	g := &W{}
	g.Bytes(3, m.b)
	return g.b
}

func relGroup(build func(m *W)) []byte {
	m := &W{}
	m.Varint(1, 901)
	build(m)
	g := &W{}
	g.Bytes(4, m.b)
	return g.b
}

func TestDamage(t *testing.T) {
	st := strTable("", "k", "v")
	type dmg struct {
		name  string
		block []byte // the damaged file block (replaces one data block), or nil if header damage
		hdr   []byte // replacement header block
	}
	good := goodPayload(1000)
	damages := []dmg{
		{name: "blobheader-size-64KiB", block: append([]byte{0, 1, 0, 0}, fileBlock("OSMData", good, false)[4:]...)},
		{name: "blobheader-size-0xFFFFFFFF", block: append([]byte{0xff, 0xff, 0xff, 0xff}, fileBlock("OSMData", good, false)[4:]...)},
		{name: "datasize-32MiB", block: func() []byte { h := &W{}; h.Bytes(1, []byte("OSMData")); h.Varint(3, 32<<20); o := make([]byte, 4); binary.BigEndian.PutUint32(o, uint32(len(h.b))); return append(o, h.b...) }()},
		{name: "datasize-negative", block: func() []byte { h := &W{}; h.Bytes(1, []byte("OSMData")); h.Varint(3, 0xFFFFFFFFFFFFFFFF); o := make([]byte, 4); binary.BigEndian.PutUint32(o, uint32(len(h.b))); return append(o, h.b...) }()},
		{name: "zlib-rawsize-too-small", block: rawFileBlock("OSMData", zblob(good, len(good)-1, nil))},
		{name: "zlib-rawsize-too-large", block: rawFileBlock("OSMData", zblob(good, len(good)+5, nil))},
		{name: "zlib-bad-header", block: rawFileBlock("OSMData", zblob(good, len(good), func(z []byte) []byte { z[0] = 0x79; return z }))},
		{name: "zlib-truncated-trailer", block: rawFileBlock("OSMData", zblob(good, len(good), func(z []byte) []byte { return z[:len(z)-6] }))},
		{name: "zlib-truncated-half", block: rawFileBlock("OSMData", zblob(good, len(good), func(z []byte) []byte { return z[:len(z)/2] }))},
		{name: "zlib-truncated-4", block: rawFileBlock("OSMData", zblob(good, len(good), func(z []byte) []byte { return z[:len(z)-4] }))},
		{name: "zlib-bad-adler", block: rawFileBlock("OSMData", zblob(good, len(good), func(z []byte) []byte { z[len(z)-1] ^= 0x55; return z }))},
		{name: "blob-lzma-only", block: rawFileBlock("OSMData", func() []byte { b := &W{}; b.Varint(2, 10); b.Bytes(4, []byte("xxxxxxxx")); return b.b }())},
		{name: "blob-empty", block: rawFileBlock("OSMData", nil)},
		{name: "blob-garbage", block: rawFileBlock("OSMData", []byte{0xff, 0xff, 0xff, 0xff, 0xff, 0x07, 0x01})},
		{name: "blocktype-unknown", block: fileBlock("Foo", good, false)},
		{name: "second-header", block: headerBlock()},
		{name: "dense-no-ids", block: fileBlock("OSMData", primBlock(st, denseGroup(denseSpec{noIDs: true, lats: []int64{1}, lons: []int64{1}})), false)},
		{name: "dense-no-lat", block: fileBlock("OSMData", primBlock(st, denseGroup(denseSpec{ids: []int64{5}, noLat: true, lons: []int64{1}})), false)},
		{name: "dense-no-lon", block: fileBlock("OSMData", primBlock(st, denseGroup(denseSpec{ids: []int64{5}, lats: []int64{1}, noLon: true})), false)},
		{name: "dense-fewer-lats-than-ids", block: fileBlock("OSMData", primBlock(st, denseGroup(denseSpec{ids: []int64{5, 1, 1}, lats: []int64{1}, lons: []int64{1, 1, 1}})), false)},
		{name: "dense-usid-out-of-range", block: fileBlock("OSMData", primBlock(st, denseGroup(denseSpec{ids: []int64{5}, lats: []int64{1}, lons: []int64{1}, usids: []int64{77}})), false)},
		{name: "dense-usid-negative", block: fileBlock("OSMData", primBlock(st, denseGroup(denseSpec{ids: []int64{5}, lats: []int64{1}, lons: []int64{1}, usids: []int64{-3}})), false)},
		{name: "dense-keyvals-out-of-range", block: fileBlock("OSMData", primBlock(st, denseGroup(denseSpec{ids: []int64{5}, lats: []int64{1}, lons: []int64{1}, kv: []uint64{1, 99, 0}})), false)},
		{name: "dense-keyvals-unterminated", block: fileBlock("OSMData", primBlock(st, denseGroup(denseSpec{ids: []int64{5, 1}, lats: []int64{1, 1}, lons: []int64{1, 1}, kv: []uint64{1, 2}})), false)},
		{name: "way-key-out-of-range", block: fileBlock("OSMData", primBlock(st, wayGroup(func(m *W) { m.Bytes(2, packedU([]uint64{50})); m.Bytes(3, packedU([]uint64{1})); m.Bytes(8, packedS([]int64{1, 2})) })), false)},
		{name: "way-more-keys-than-vals", block: fileBlock("OSMData", primBlock(st, wayGroup(func(m *W) { m.Bytes(2, packedU([]uint64{1, 1})); m.Bytes(3, packedU([]uint64{2})); m.Bytes(8, packedS([]int64{1, 2})) })), false)},
		{name: "way-more-vals-than-keys", block: fileBlock("OSMData", primBlock(st, wayGroup(func(m *W) { m.Bytes(2, packedU([]uint64{1})); m.Bytes(3, packedU([]uint64{2, 2})); m.Bytes(8, packedS([]int64{1, 2})) })), false)},
		{name: "way-info-usid-out-of-range", block: fileBlock("OSMData", primBlock(st, wayGroup(func(m *W) { inf := &W{}; inf.Varint(5, 40); m.Bytes(4, inf.b); m.Bytes(8, packedS([]int64{1, 2})) })), false)},
		{name: "way-more-lats-than-refs", block: fileBlock("OSMData", primBlock(st, wayGroup(func(m *W) { m.Bytes(8, packedS([]int64{1, 2})); m.Bytes(9, packedS([]int64{1, 2, 3})); m.Bytes(10, packedS([]int64{1, 2})) })), false)},
		{name: "rel-role-out-of-range", block: fileBlock("OSMData", primBlock(st, relGroup(func(m *W) { m.Bytes(8, packedU([]uint64{30})); m.Bytes(9, packedS([]int64{4})); m.Bytes(10, packedU([]uint64{1})) })), false)},
		{name: "rel-more-roles-than-types", block: fileBlock("OSMData", primBlock(st, relGroup(func(m *W) { m.Bytes(8, packedU([]uint64{1, 1})); m.Bytes(9, packedS([]int64{4, 1})); m.Bytes(10, packedU([]uint64{1})) })), false)},
		{name: "rel-fewer-memids-than-roles", block: fileBlock("OSMData", primBlock(st, relGroup(func(m *W) { m.Bytes(8, packedU([]uint64{1, 1})); m.Bytes(9, packedS([]int64{4})); m.Bytes(10, packedU([]uint64{1, 1})) })), false)},
		{name: "nested-varint-cut", block: fileBlock("OSMData", func() []byte { p := goodPayload(1000); return p[:len(p)-1] }(), false)},
		{name: "plain-node-group", block: fileBlock("OSMData", primBlock(st, func() []byte { n := &W{}; n.Varint(1, zz(5)); n.Varint(8, zz(1)); n.Varint(9, zz(1)); g := &W{}; g.Bytes(1, n.b); return g.b }()), false)},
		{name: "header-unsupported-feature", hdr: func() []byte { h := &W{}; h.Bytes(4, []byte("OsmSchema-V0.6")); h.Bytes(4, []byte("Foo")); return fileBlock("OSMHeader", h.b, true) }()},
	}
	var names []string
	res := map[string][]string{}
	for _, d := range damages {
		names = append(names, d.name)
		for _, pos := range []int{0, 2, 4} { // damaged block index among 5 data blocks
			if d.hdr != nil && pos != 0 {
				continue
			}
			for _, procs := range []int{1, 3, 11} {
				var data []byte
				var want []int64
				if d.hdr != nil {
					data = append(data, d.hdr...)
				} else {
					data = append(data, headerBlock()...)
				}
				for b := 0; b < 5; b++ {
					if d.hdr == nil && b == pos {
						data = append(data, d.block...)
						continue
					}
					data = append(data, fileBlock("OSMData", goodPayload(int64(10*b+1)), b%2 == 0)...)
					if d.hdr == nil && b < pos {
						want = append(want, int64(10*b+1), int64(10*b+2))
					}
				}
				o := scanData(t, data, procs, uint64(pos*100+procs))
				verdict := "OK(error after prefix)"
				switch {
				case o.crash != "":
					c := o.crash
					if len(c) > 90 {
						c = c[:90]
					}
					verdict = "CRASH " + c
				case o.hang != "":
					verdict = "HANG " + o.hang
				case o.err == nil:
					verdict = fmt.Sprintf("SILENT-SUCCESS ids=%v", o.ids)
				case fmt.Sprint(o.ids) != fmt.Sprint(want):
					verdict = fmt.Sprintf("WRONG-PREFIX got=%v want=%v err=%v", o.ids, want, o.err)
				}
				found := false
				for _, v := range res[d.name] {
					if v == verdict {
						found = true
					}
				}
				if !found {
					res[d.name] = append(res[d.name], verdict)
				}
			}
		}
	}
	sort.Strings(names)
	for _, n := range names {
		t.Logf("%-30s %v", n, res[n])
	}
}
