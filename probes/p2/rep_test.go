package h

import (
	"context"
	"fmt"
	"io"
	"net/http"
	"strings"
	"testing"
	"time"

	"github.com/paulmach/osm/replication"
)

type planet struct {
	n       int
	budget  int
	missing map[uint64]bool
	max     uint64
}

var t0 = time.Date(2020, 1, 1, 0, 0, 0, 0, time.UTC)

func tsOf(seq uint64) time.Time { return t0.Add(time.Duration(seq) * 10 * time.Minute) }

func (r *planet) RoundTrip(req *http.Request) (*http.Response, error) {
	r.n++
	if r.n > r.budget {
		return nil, fmt.Errorf("budget exceeded")
	}
	p := req.URL.Path
	var seq uint64
	if p == "/replication/minute/state.txt" {
		seq = r.max
	} else {
		var a, b, c uint64
		fmt.Sscanf(p, "/replication/minute/%03d/%03d/%03d.state.txt", &a, &b, &c)
		seq = a*1000000 + b*1000 + c
		if seq > r.max || seq == 0 || r.missing[seq] {
			return &http.Response{StatusCode: 404, Body: io.NopCloser(strings.NewReader(""))}, nil
		}
	}
	body := fmt.Sprintf("#x\nsequenceNumber=%d\ntimestamp=%s\n", seq, strings.ReplaceAll(tsOf(seq).Format("2006-01-02T15:04:05Z"), ":", "\\:"))
	return &http.Response{StatusCode: 200, Body: io.NopCloser(strings.NewReader(body))}, nil
}

func TestSearchEnum(t *testing.T) {
	classes := map[string]int{}
	examples := map[string]string{}
	for max := uint64(1); max <= 11; max++ {
		for mask := 0; mask < 1<<(max-1); mask++ { // bit i => seq i+1 missing (never the max/current)
			missing := map[uint64]bool{}
			nm := 0
			for i := uint64(0); i < max-1; i++ {
				if mask&(1<<i) != 0 {
					missing[i+1] = true
					nm++
				}
			}
			// query times: before all, equal to each, between each, after all
			for q := 0; q <= int(2*max)+1; q++ {
				tq := t0.Add(time.Duration(q) * 5 * time.Minute) // q even => equals state q/2; odd => between
				pl := &planet{budget: 300, missing: missing, max: max}
				ds := &replication.Datasource{BaseURL: "http://sim", Client: &http.Client{Transport: pl}}
				n, _, err := ds.MinuteStateAt(context.Background(), tq)
				// expected: first available seq with ts >= tq, or max if later than all
				var want uint64 = max
				for s := uint64(1); s <= max; s++ {
					if !missing[s] && !tsOf(s).Before(tq) {
						want = s
						break
					}
				}
				cls := "ok"
				if err != nil {
					cls = "budget-exceeded(nontermination)"
				} else if uint64(n) != want {
					pos := "between"
					if q%2 == 0 {
						pos = "equal"
					}
					if !tq.After(tsOf(1)) {
						pos = "at-or-before-first"
					}
					first := "min-present"
					if missing[1] {
						first = "min-missing"
					}
					gaps := "nogaps"
					if nm > 0 {
						gaps = "gaps"
					}
					rel := "got<want"
					if uint64(n) > want {
						rel = "got>want"
					}
					cls = fmt.Sprintf("wrong/%s/%s/%s/%s", pos, first, gaps, rel)
				}
				classes[cls]++
				if _, ok := examples[cls]; !ok {
					examples[cls] = fmt.Sprintf("max=%d missing=%v q=%v got=%d want=%d reqs=%d", max, keys(missing), tq.Sub(t0), n, want, pl.n)
				}
			}
		}
	}
	for c, n := range classes {
		t.Logf("%-60s %6d  e.g. %s", c, n, examples[c])
	}
}

func keys(m map[uint64]bool) []uint64 {
	var ks []uint64
	for k := uint64(0); k < 64; k++ {
		if m[k] {
			ks = append(ks, k)
		}
	}
	return ks
}
