package h

import (
	"bytes"
	"context"
	"fmt"
	"math/rand"
	"testing"

	"github.com/paulmach/osm"
	"github.com/paulmach/osm/osmpbf"
)

type fileModel struct {
	data    []byte
	offs    []int64        // offset of each data block
	objs    [][]osm.Object // per block
}

func genFile(rng *rand.Rand) fileModel {
	var fm fileModel
	fm.data = append(fm.data, headerBlock()...)
	var id int64
	nb := rng.Intn(7)
	for b := 0; b < nb; b++ {
		blk, e, _ := genBlock(rng, &id)
		fm.offs = append(fm.offs, int64(len(fm.data)))
		fm.data = append(fm.data, blk...)
		fm.objs = append(fm.objs, e)
	}
	return fm
}

func keep(o osm.Object, mask int) bool {
	switch o.(type) {
	case *osm.Node:
		return mask&1 == 0
	case *osm.Way:
		return mask&2 == 0
	case *osm.Relation:
		return mask&4 == 0
	}
	return true
}

func newScanner(data []byte, procs, mask int) *osmpbf.Scanner {
	sc := osmpbf.New(context.Background(), bytes.NewReader(data), procs)
	sc.SkipNodes = mask&1 != 0
	sc.SkipWays = mask&2 != 0
	sc.SkipRelations = mask&4 != 0
	return sc
}

func TestResume(t *testing.T) {
	bad := map[string]int{}
	var first string
	fail := func(cls, f string, a ...interface{}) {
		bad[cls]++
		if first == "" {
			first = cls + ": " + fmt.Sprintf(f, a...)
		}
	}
	checks, resumes := 0, 0
	for seed := int64(1); seed <= 1500; seed++ {
		rng := rand.New(rand.NewSource(seed))
		fm := genFile(rng)
		mask := rng.Intn(8)
		procs := 1 + rng.Intn(4)
		// expected sequence with block index
		type eo struct {
			o   osm.Object
			blk int
		}
		var exp []eo
		for b, os := range fm.objs {
			for _, o := range os {
				if keep(o, mask) {
					exp = append(exp, eo{o, b})
				}
			}
		}
		sc := newScanner(fm.data, procs, mask)
		if sc.FullyScannedBytes() != 0 || sc.PreviousFullyScannedBytes() != 0 {
			fail("initial-nonzero", "seed %d", seed)
		}
		i := 0
		type off struct{ c, p int64 }
		var offsAfter []off
		for sc.Scan() {
			if i >= len(exp) {
				fail("extra-object", "seed %d", seed)
				break
			}
			if m := eqObj(exp[i].o, sc.Object()); m != "" {
				fail("wrong-object", "seed %d i=%d %s", seed, i, m)
			}
			c, p := sc.FullyScannedBytes(), sc.PreviousFullyScannedBytes()
			offsAfter = append(offsAfter, off{c, p})
			b := exp[i].blk
			wantC := fm.offs[b]
			wantP := int64(0)
			if b > 0 {
				wantP = fm.offs[b-1]
			}
			checks++
			if c != wantC {
				fail("current-offset", "seed %d obj %d blk %d got %d want %d (offs %v)", seed, i, b, c, wantC, fm.offs)
			}
			if p != wantP {
				fail("previous-offset", "seed %d mask %d procs %d obj %d blk %d got %d want %d (offs %v) ", seed, mask, procs, i, b, p, wantP, fm.offs)
			}
			i++
		}
		if sc.Err() != nil || i != len(exp) {
			fail("scan", "seed %d err %v got %d want %d", seed, sc.Err(), i, len(exp))
		}
		sc.Close()
		// resume after each k
		for k := 1; k <= len(offsAfter); k++ {
			o := offsAfter[k-1]
			b := exp[k-1].blk
			// remaining = all kept objects from block b on
			var want []osm.Object
			for _, e := range exp {
				if e.blk >= b {
					want = append(want, e.o)
				}
			}
			rs := newScanner(fm.data[o.c:], 1+rng.Intn(4), mask)
			j := 0
			for rs.Scan() {
				if j >= len(want) {
					fail("resume-extra", "seed %d", seed)
					break
				}
				if m := eqObj(want[j], rs.Object()); m != "" {
					fail("resume-wrong-object", "seed %d k=%d j=%d %s", seed, k, j, m)
					break
				}
				// offsets are relative to the resumed reader's start
				if j == 0 && rs.FullyScannedBytes() != 0 {
					fail("resume-first-offset", "seed %d got %d", seed, rs.FullyScannedBytes())
				}
				j++
			}
			if rs.Err() != nil || j != len(want) {
				fail("resume-count", "seed %d k=%d err=%v got %d want %d", seed, k, rs.Err(), j, len(want))
			}
			rs.Close()
			resumes++
		}
	}
	t.Logf("offset checks=%d resumes=%d bad=%v", checks, resumes, bad)
	t.Logf("first: %s", first)
}
