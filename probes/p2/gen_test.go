package h

import (
	"bytes"
	"context"
	"fmt"
	"math"
	"math/rand"
	"testing"
	"time"

	"github.com/paulmach/osm"
	"github.com/paulmach/osm/osmpbf"
)

type blockParams struct {
	gran, dgran       *int64
	latOff, lonOff    *int64
	zlib              bool
}

func optInt(rng *rand.Rand, vals ...int64) *int64 {
	if rng.Intn(2) == 0 {
		return nil
	}
	v := vals[rng.Intn(len(vals))]
	return &v
}

func deref(p *int64, def int64) int64 {
	if p == nil {
		return def
	}
	return *p
}

type strtab struct {
	s   []string
	idx map[string]int
}

func (st *strtab) id(s string) uint64 {
	if i, ok := st.idx[s]; ok {
		return uint64(i)
	}
	st.idx[s] = len(st.s)
	st.s = append(st.s, s)
	return uint64(len(st.s) - 1)
}

func rstr(rng *rand.Rand) string {
	a := []string{"a", "highway", "näme", "日本", "x y", "v", "role", "bob", "", "k=v"}
	return a[rng.Intn(len(a))]
}

func tsFrom(raw, dgran int64) time.Time { return time.Unix(0, raw*dgran*int64(time.Millisecond)).UTC() }

// genBlock returns the encoded block and expected objects.
func genBlock(rng *rand.Rand, nextID *int64) ([]byte, []osm.Object, string) {
	bp := blockParams{gran: optInt(rng, 100, 1, 1000, 7), dgran: optInt(rng, 1000, 1, 60000), latOff: optInt(rng, 0, 123456789, -5000), lonOff: optInt(rng, 0, -987654321, 77), zlib: rng.Intn(2) == 0}
	gran, dgran := deref(bp.gran, 100), deref(bp.dgran, 1000)
	latOff, lonOff := deref(bp.latOff, 0), deref(bp.lonOff, 0)
	st := &strtab{idx: map[string]int{}}
	st.s = append(st.s, "")
	desc := fmt.Sprintf("gran=%v dgran=%v latoff=%v lonoff=%v zlib=%v;", bp.gran != nil, bp.dgran != nil, bp.latOff != nil, bp.lonOff != nil, bp.zlib)
	var groups [][]byte
	var exp []osm.Object
	ng := rng.Intn(3)
	for g := 0; g < ng; g++ {
		switch rng.Intn(3) {
		case 0: // dense
			n := rng.Intn(5)
			hasInfo := rng.Intn(3) != 0
			var col [6]bool
			for i := range col {
				col[i] = hasInfo && rng.Intn(3) != 0
			}
			anyTags := rng.Intn(2) == 0
			kvPresent := anyTags || rng.Intn(2) == 0
			desc += fmt.Sprintf(" dense(n=%d info=%v cols=%v kv=%v)", n, hasInfo, col, kvPresent)
			var ids, lats, lons, tss, css, uids, usids []int64
			var vers, vis, kv []uint64
			var pid, plat, plon, pts, pcs, puid, pusid int64
			for i := 0; i < n; i++ {
				*nextID++
				id := *nextID
				rlat, rlon := int64(rng.Intn(2000000)-1000000), int64(rng.Intn(2000000)-1000000)
				nd := &osm.Node{ID: osm.NodeID(id), Visible: true,
					Lat: 1e-9 * float64(latOff+gran*rlat), Lon: 1e-9 * float64(lonOff+gran*rlon)}
				ids = append(ids, id-pid); pid = id
				lats = append(lats, rlat-plat); plat = rlat
				lons = append(lons, rlon-plon); plon = rlon
				if col[0] {
					v := int64(rng.Intn(5)); vers = append(vers, uint64(v)); nd.Version = int(v)
				}
				if col[1] {
					v := int64(rng.Intn(1000000)); tss = append(tss, v-pts); pts = v; nd.Timestamp = tsFrom(v, dgran)
				}
				if col[2] {
					v := int64(rng.Intn(100000)); css = append(css, v-pcs); pcs = v; nd.ChangesetID = osm.ChangesetID(v)
				}
				if col[3] {
					v := int64(rng.Intn(1000)); uids = append(uids, v-puid); puid = v; nd.UserID = osm.UserID(v)
				}
				if col[4] {
					u := rstr(rng); v := int64(st.id(u)); usids = append(usids, v-pusid); pusid = v; nd.User = u
				}
				if col[5] {
					b := rng.Intn(2) == 0
					if b { vis = append(vis, 1) } else { vis = append(vis, 0) }
					nd.Visible = b
				}
				if kvPresent {
					if anyTags {
						for k := rng.Intn(3); k > 0; k-- {
							a, b := rstr(rng)+"k", rstr(rng)
							kv = append(kv, st.id(a), st.id(b))
							nd.Tags = append(nd.Tags, osm.Tag{Key: a, Value: b})
						}
					}
					kv = append(kv, 0)
				}
				exp = append(exp, nd)
			}
			d := &W{}
			d.Bytes(1, packedS(ids))
			if hasInfo {
				inf := &W{}
				if col[0] { inf.Bytes(1, packedU(vers)) }
				if col[1] { inf.Bytes(2, packedS(tss)) }
				if col[2] { inf.Bytes(3, packedS(css)) }
				if col[3] { inf.Bytes(4, packedS(uids)) }
				if col[4] { inf.Bytes(5, packedS(usids)) }
				if col[5] { inf.Bytes(6, packedU(vis)) }
				d.Bytes(5, inf.b)
			}
			d.Bytes(8, packedS(lats))
			d.Bytes(9, packedS(lons))
			if kvPresent { d.Bytes(10, packedU(kv)) }
			grp := &W{}
			grp.Bytes(2, d.b)
			groups = append(groups, grp.b)
		case 1: // ways
			grp := &W{}
			n := rng.Intn(4)
			for i := 0; i < n; i++ {
				*nextID++
				w := &osm.Way{ID: osm.WayID(*nextID), Visible: true}
				m := &W{}
				m.Varint(1, uint64(*nextID))
				nt := 0
				if rng.Intn(2) == 0 { nt = rng.Intn(3) }
				tagsPresent := nt > 0 || rng.Intn(2) == 0
				var ks, vs []uint64
				for k := 0; k < nt; k++ {
					a, b := rstr(rng)+"k", rstr(rng)
					ks = append(ks, st.id(a)); vs = append(vs, st.id(b))
					w.Tags = append(w.Tags, osm.Tag{Key: a, Value: b})
				}
				if tagsPresent { m.Bytes(2, packedU(ks)); m.Bytes(3, packedU(vs)) }
				info := ""
				if rng.Intn(3) != 0 {
					inf := &W{}
					if rng.Intn(3) != 0 { v := rng.Intn(9); inf.Varint(1, uint64(v)); w.Version = v; info += "v" }
					if rng.Intn(3) != 0 { v := int64(rng.Intn(1000000)); inf.Varint(2, uint64(v)); w.Timestamp = tsFrom(v, dgran); info += "t" }
					if rng.Intn(3) != 0 { v := rng.Intn(99999); inf.Varint(3, uint64(v)); w.ChangesetID = osm.ChangesetID(v); info += "c" }
					if rng.Intn(3) != 0 { v := rng.Intn(999); inf.Varint(4, uint64(v)); w.UserID = osm.UserID(v); info += "u" }
					if rng.Intn(3) != 0 { u := rstr(rng); inf.Varint(5, st.id(u)); w.User = u; info += "s" }
					if rng.Intn(3) != 0 { b := rng.Intn(2); inf.Varint(6, uint64(b)); w.Visible = b == 1; info += "b" }
					m.Bytes(4, inf.b)
					info = "info:" + info
				}
				nr := rng.Intn(5)
				loc := rng.Intn(3) == 0
				var refs, la, lo []int64
				var pr, pla, plo int64
				for k := 0; k < nr; k++ {
					r := int64(rng.Intn(1000) + 1)
					refs = append(refs, r-pr); pr = r
					wn := osm.WayNode{ID: osm.NodeID(r)}
					if loc {
						rlat, rlon := int64(rng.Intn(2000)-1000), int64(rng.Intn(2000)-1000)
						la = append(la, rlat-pla); pla = rlat
						lo = append(lo, rlon-plo); plo = rlon
						wn.Lat = 1e-9 * float64(latOff+gran*rlat)
						wn.Lon = 1e-9 * float64(lonOff+gran*rlon)
					}
					w.Nodes = append(w.Nodes, wn)
				}
				if nr > 0 || rng.Intn(2) == 0 {
					m.Bytes(8, packedS(refs))
					if loc { m.Bytes(9, packedS(la)); m.Bytes(10, packedS(lo)) }
				}
				desc += fmt.Sprintf(" way(tags=%d/%v %s refs=%d loc=%v)", nt, tagsPresent, info, nr, loc)
				grp.Bytes(3, m.b)
				exp = append(exp, w)
			}
			groups = append(groups, grp.b)
		case 2: // relations
			grp := &W{}
			n := rng.Intn(4)
			for i := 0; i < n; i++ {
				*nextID++
				r := &osm.Relation{ID: osm.RelationID(*nextID), Visible: true}
				m := &W{}
				m.Varint(1, uint64(*nextID))
				nt := 0
				if rng.Intn(2) == 0 { nt = rng.Intn(3) }
				tagsPresent := nt > 0 || rng.Intn(2) == 0
				var ks, vs []uint64
				for k := 0; k < nt; k++ {
					a, b := rstr(rng)+"k", rstr(rng)
					ks = append(ks, st.id(a)); vs = append(vs, st.id(b))
					r.Tags = append(r.Tags, osm.Tag{Key: a, Value: b})
				}
				if tagsPresent { m.Bytes(2, packedU(ks)); m.Bytes(3, packedU(vs)) }
				if rng.Intn(3) != 0 {
					inf := &W{}
					if rng.Intn(3) != 0 { v := rng.Intn(9); inf.Varint(1, uint64(v)); r.Version = v }
					if rng.Intn(3) != 0 { v := int64(rng.Intn(1000000)); inf.Varint(2, uint64(v)); r.Timestamp = tsFrom(v, dgran) }
					if rng.Intn(3) != 0 { v := rng.Intn(99999); inf.Varint(3, uint64(v)); r.ChangesetID = osm.ChangesetID(v) }
					if rng.Intn(3) != 0 { v := rng.Intn(999); inf.Varint(4, uint64(v)); r.UserID = osm.UserID(v) }
					if rng.Intn(3) != 0 { u := rstr(rng); inf.Varint(5, st.id(u)); r.User = u }
					if rng.Intn(3) != 0 { b := rng.Intn(2); inf.Varint(6, uint64(b)); r.Visible = b == 1 }
					m.Bytes(4, inf.b)
				}
				nm := rng.Intn(4)
				var roles, types []uint64
				var mem []int64
				var pm int64
				for k := 0; k < nm; k++ {
					ro := rstr(rng)
					ty := rng.Intn(3)
					ref := int64(rng.Intn(5000) + 1)
					roles = append(roles, st.id(ro)); types = append(types, uint64(ty)); mem = append(mem, ref-pm); pm = ref
					r.Members = append(r.Members, osm.Member{Type: []osm.Type{osm.TypeNode, osm.TypeWay, osm.TypeRelation}[ty], Ref: ref, Role: ro})
				}
				if nm > 0 || rng.Intn(2) == 0 {
					m.Bytes(8, packedU(roles)); m.Bytes(9, packedS(mem)); m.Bytes(10, packedU(types))
				}
				desc += fmt.Sprintf(" rel(tags=%d members=%d)", nt, nm)
				grp.Bytes(4, m.b)
				exp = append(exp, r)
			}
			groups = append(groups, grp.b)
		}
	}
	stw := &W{}
	for _, s := range st.s {
		stw.Bytes(1, []byte(s))
	}
	pb := &W{}
	pb.Bytes(1, stw.b)
	for _, g := range groups {
		pb.Bytes(2, g)
	}
	if bp.gran != nil { pb.Varint(17, uint64(*bp.gran)) }
	if bp.dgran != nil { pb.Varint(18, uint64(*bp.dgran)) }
	if bp.latOff != nil { pb.Varint(19, uint64(*bp.latOff)) }
	if bp.lonOff != nil { pb.Varint(20, uint64(*bp.lonOff)) }
	return fileBlock("OSMData", pb.b, bp.zlib), exp, desc
}

func eqObj(a, b osm.Object) string {
	switch x := a.(type) {
	case *osm.Node:
		y, ok := b.(*osm.Node)
		if !ok { return "type" }
		if x.ID != y.ID || x.Version != y.Version || !x.Timestamp.Equal(y.Timestamp) || x.ChangesetID != y.ChangesetID || x.UserID != y.UserID || x.User != y.User || x.Visible != y.Visible {
			return fmt.Sprintf("node meta: want %+v got %+v", *x, *y)
		}
		if math.Abs(x.Lat-y.Lat) > 1e-10 || math.Abs(x.Lon-y.Lon) > 1e-10 { return fmt.Sprintf("coords want %v,%v got %v,%v", x.Lat, x.Lon, y.Lat, y.Lon) }
		if fmt.Sprint([]osm.Tag(x.Tags)) != fmt.Sprint([]osm.Tag(y.Tags)) && !(len(x.Tags) == 0 && len(y.Tags) == 0) { return fmt.Sprintf("tags want %v got %v", x.Tags, y.Tags) }
	case *osm.Way:
		y, ok := b.(*osm.Way)
		if !ok { return "type" }
		if x.ID != y.ID || x.Version != y.Version || !x.Timestamp.Equal(y.Timestamp) || x.ChangesetID != y.ChangesetID || x.UserID != y.UserID || x.User != y.User || x.Visible != y.Visible {
			return fmt.Sprintf("way meta: want %+v got %+v", *x, *y)
		}
		if fmt.Sprint([]osm.Tag(x.Tags)) != fmt.Sprint([]osm.Tag(y.Tags)) && !(len(x.Tags) == 0 && len(y.Tags) == 0) { return fmt.Sprintf("tags want %v got %v", x.Tags, y.Tags) }
		if len(x.Nodes) != len(y.Nodes) { return fmt.Sprintf("nodes want %v got %v", x.Nodes, y.Nodes) }
		for i := range x.Nodes {
			if x.Nodes[i].ID != y.Nodes[i].ID || math.Abs(x.Nodes[i].Lat-y.Nodes[i].Lat) > 1e-10 || math.Abs(x.Nodes[i].Lon-y.Nodes[i].Lon) > 1e-10 { return fmt.Sprintf("waynode %d want %v got %v", i, x.Nodes[i], y.Nodes[i]) }
		}
	case *osm.Relation:
		y, ok := b.(*osm.Relation)
		if !ok { return "type" }
		if x.ID != y.ID || x.Version != y.Version || !x.Timestamp.Equal(y.Timestamp) || x.ChangesetID != y.ChangesetID || x.UserID != y.UserID || x.User != y.User || x.Visible != y.Visible {
			return fmt.Sprintf("rel meta: want %+v got %+v", *x, *y)
		}
		if fmt.Sprint([]osm.Tag(x.Tags)) != fmt.Sprint([]osm.Tag(y.Tags)) && !(len(x.Tags) == 0 && len(y.Tags) == 0) { return fmt.Sprintf("tags want %v got %v", x.Tags, y.Tags) }
		if fmt.Sprint([]osm.Member(x.Members)) != fmt.Sprint([]osm.Member(y.Members)) && !(len(x.Members) == 0 && len(y.Members) == 0) { return fmt.Sprintf("members want %v got %v", x.Members, y.Members) }
	}
	return ""
}

func TestGen(t *testing.T) {
	bad := 0
	classes := map[string]int{}
	for seed := int64(1); seed <= 30000; seed++ {
		rng := rand.New(rand.NewSource(seed))
		var data []byte
		data = append(data, headerBlock()...)
		var exp []osm.Object
		var descs []string
		var id int64
		nb := rng.Intn(6)
		for b := 0; b < nb; b++ {
			blk, e, d := genBlock(rng, &id)
			data = append(data, blk...)
			exp = append(exp, e...)
			descs = append(descs, d)
		}
		procs := 1 + rng.Intn(3)
		sc := osmpbf.New(context.Background(), bytes.NewReader(data), procs)
		var got []osm.Object
		for sc.Scan() {
			got = append(got, sc.Object())
		}
		err := sc.Err()
		sc.Close()
		msg := ""
		if err != nil {
			msg = "err: " + err.Error()
		} else if len(got) != len(exp) {
			msg = fmt.Sprintf("count want %d got %d", len(exp), len(got))
		} else {
			for i := range exp {
				if m := eqObj(exp[i], got[i]); m != "" {
					msg = fmt.Sprintf("obj %d: %s", i, m)
					break
				}
			}
		}
		if msg != "" {
			bad++
			c := msg
			if len(c) > 40 { c = c[:40] }
			classes[c]++
			if bad <= 3 {
				t.Logf("seed %d procs %d: %s\n  blocks: %v", seed, procs, msg, descs)
			}
		}
	}
	t.Logf("bad=%d classes=%v", bad, classes)
}
