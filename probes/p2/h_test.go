package h

import (
	"hash/fnv"
	"context"
	"fmt"
	"io"
	"os"
	"strings"
	"testing"
	"testing/synctest"
	"time"

	"github.com/paulmach/osm"
	"github.com/paulmach/osm/osmpbf"
	"github.com/paulmach/osm/simrt"
)

func file(blocks, per int) ([]byte, []int) {
	var b []byte
	var offs []int
	b = append(b, headerBlock()...)
	for i := 0; i < blocks; i++ {
		offs = append(offs, len(b))
		b = append(b, denseBlock(int64(1+i*per), per, i%2 == 0)...)
	}
	offs = append(offs, len(b))
	return b, offs
}

type rdEvent struct {
	t   int64
	pos int
	n   int
}

type simReader struct {
	data  []byte
	pos   int
	chunk int
	log   []rdEvent
}

func (r *simReader) Read(p []byte) (int, error) {
	simrt.Yield("reader.Read")
	if r.pos >= len(r.data) {
		return 0, io.EOF
	}
	n := copy(p, r.data[r.pos:])
	if n > r.chunk {
		n = r.chunk
	}
	r.log = append(r.log, rdEvent{time.Now().UnixNano(), r.pos, n})
	r.pos += n
	return n, nil
}

type result struct {
	ids         []int64
	err         error
	trace       string
	closeAt     int64
	closeRet    int64
	readAfter   int
	posAtClose  int
	live        int64
	crashes     []string
	yields      int
	outOfOrder  bool
}

type cfg struct {
	seed      uint64
	procs     int
	data      []byte
	stopAfter int   // Close after k objects; -1 = never
	cancelAt  int64 // cancel from 2nd goroutine after this many sim ns; 0 = never
	speed     func(string) int64
}

func run(t *testing.T, c cfg) (res result) {
	synctest.Test(t, func(t *testing.T) {
		sim := &simrt.Sim{Seed: c.seed, Speed: c.speed}
		simrt.Start(sim)
		defer simrt.Stop()
		simrt.Register("consumer")
		r := &simReader{data: c.data, chunk: 1 + int(c.seed%97)}
		ctx, cancel := context.WithCancel(context.Background())
		defer cancel()
		sc := osmpbf.New(ctx, r, c.procs)
		sc.FilterNode = func(n *osm.Node) bool { simrt.Yield("filter"); return true }
		done := make(chan struct{})
		if c.cancelAt > 0 {
			go func() {
				defer close(done)
				time.Sleep(time.Duration(c.cancelAt))
				cancel()
			}()
		} else {
			close(done)
		}
		k := 0
		for c.stopAfter < 0 || k < c.stopAfter {
			simrt.Yield("consumer.Scan")
			if !sc.Scan() {
				break
			}
			res.ids = append(res.ids, int64(sc.Object().(*osm.Node).ID))
			k++
		}
		simrt.Yield("consumer.Close")
		res.closeAt = time.Now().UnixNano()
		sc.Close()
		res.closeRet = time.Now().UnixNano()
		res.err = sc.Err()
		res.live = sim.Live()
		<-done
		// let remaining goroutines (if any) wind down
		time.Sleep(time.Hour)
		for _, e := range r.log {
			if e.t > res.closeAt {
				res.readAfter += e.n
			} else {
				res.posAtClose = e.pos + e.n
			}
		}
		res.crashes = sim.Crashes
		var sb strings.Builder
		for _, e := range sim.Merged() {
			fmt.Fprintf(&sb, "%d %s %s\n", e.T, e.G, e.Site)
			res.yields++
		}
		res.trace = sb.String()
	})
	return
}

func key(r result) string {
	return fmt.Sprint(r.ids, r.err, r.closeAt, r.closeRet, r.readAfter, r.live, r.crashes) + r.trace
}

func TestDeterminism(t *testing.T) {
	data, _ := file(24, 3)
	start := time.Now()
	runs, yields := 0, 0
	distinct := map[string]bool{}
	allKeys := fnv.New64a()
	for seed := uint64(1); seed <= 30; seed++ {
		for _, procs := range []int{1, 3, 12} {
			for _, mode := range []int{0, 1, 2} {
				c := cfg{seed: seed, procs: procs, data: data, stopAfter: -1}
				switch mode {
				case 1:
					c.stopAfter = int(seed % 40)
				case 2:
					c.cancelAt = int64(seed%50+5) * 20 * simrt.Q
				}
				a := run(t, c)
				b := run(t, c)
				if key(a) != key(b) {
					os.WriteFile("/tmp/p2/a.txt", []byte(key(a)), 0644)
					os.WriteFile("/tmp/p2/b.txt", []byte(key(b)), 0644)
					t.Fatalf("nondeterministic seed=%d procs=%d mode=%d", seed, procs, mode)
				}
				for i, id := range a.ids {
					if id != int64(i+1) {
						t.Fatalf("order broken seed=%d procs=%d: %v", seed, procs, a.ids)
					}
				}
				distinct[a.trace] = true
				allKeys.Write([]byte(key(a)))
				runs += 2
				yields += a.yields + b.yields
			}
		}
	}
	t.Logf("HASH %x", allKeys.Sum64())
	t.Logf("%d runs, %d distinct traces, %d yields in %v", runs, len(distinct), yields, time.Since(start))
}

func TestCloseProbe(t *testing.T) {
	data, _ := file(60, 3)
	for _, procs := range []int{1, 3} {
		r := run(t, cfg{seed: 5, procs: procs, data: data, stopAfter: 4})
		t.Logf("procs=%d ids=%d err=%v posAtClose=%d readAfterClose=%d total=%d live=%d closeDur=%dms", procs, len(r.ids), r.err, r.posAtClose, r.readAfter, len(data), r.live, (r.closeRet-r.closeAt)/simrt.Q)
	}
}
