package h

import (
	"context"
	"errors"
	"fmt"
	"math/rand"
	"testing"
	"testing/synctest"
	"time"

	"github.com/paulmach/osm"
	"github.com/paulmach/osm/annotate"
	"github.com/paulmach/osm/simrt"
)

type relDS struct {
	hist    map[osm.RelationID]osm.Relations
	calls   int
	failAt  int
	failErr error
}

var errNF = errors.New("nf")

func (d *relDS) RelationHistory(ctx context.Context, id osm.RelationID) (osm.Relations, error) {
	simrt.Yield("ds.RelationHistory")
	d.calls++
	if d.failAt > 0 && d.calls == d.failAt {
		return nil, d.failErr
	}
	h, ok := d.hist[id]
	if !ok {
		return nil, errNF
	}
	return h, nil
}
func (d *relDS) NotFound(err error) bool { return err == errNF }

type graph struct {
	hist map[osm.RelationID]osm.Relations
	ids  []osm.RelationID
	dag  bool
}

func genGraph(rng *rand.Rand) graph {
	n := 1 + rng.Intn(8)
	g := graph{hist: map[osm.RelationID]osm.Relations{}, dag: rng.Intn(2) == 0}
	for id := 1; id <= n; id++ {
		if rng.Intn(6) == 0 {
			continue // no history
		}
		nv := 1 + rng.Intn(3)
		for v := 1; v <= nv; v++ {
			r := &osm.Relation{ID: osm.RelationID(id), Version: v, Visible: true}
			for m := rng.Intn(4); m > 0; m-- {
				switch rng.Intn(4) {
				case 0:
					r.Members = append(r.Members, osm.Member{Type: osm.TypeNode, Ref: int64(rng.Intn(9) + 1)})
				case 1:
					r.Members = append(r.Members, osm.Member{Type: osm.TypeWay, Ref: int64(rng.Intn(9) + 1)})
				default:
					ref := 1 + rng.Intn(n+1)
					if g.dag {
						if id == n {
							continue
						}
						ref = id + 1 + rng.Intn(n-id+1) // only larger ids (n+1 = missing)
					}
					r.Members = append(r.Members, osm.Member{Type: osm.TypeRelation, Ref: int64(ref)})
				}
			}
			g.hist[r.ID] = append(g.hist[r.ID], r)
		}
	}
	k := 1 + rng.Intn(n+2)
	for i := 0; i < k; i++ {
		g.ids = append(g.ids, osm.RelationID(1+rng.Intn(n+1)))
	}
	return g
}

func (g graph) reach(from osm.RelationID) map[osm.RelationID]bool {
	seen := map[osm.RelationID]bool{}
	var walk func(id osm.RelationID)
	walk = func(id osm.RelationID) {
		for _, r := range g.hist[id] {
			for _, m := range r.Members {
				if m.Type != osm.TypeRelation {
					continue
				}
				c := osm.RelationID(m.Ref)
				if _, ok := g.hist[c]; !ok || seen[c] {
					continue
				}
				seen[c] = true
				walk(c)
			}
		}
	}
	walk(from)
	return seen
}

func c14run(t *testing.T, seed uint64, g graph, stopAfter int, failAt int) (msgs []string) {
	defer func() {
		if r := recover(); r != nil {
			msgs = append(msgs, "HANG/PANIC: "+fmt.Sprint(r))
		}
	}()
	bad := func(f string, a ...interface{}) { msgs = append(msgs, fmt.Sprintf(f, a...)) }
	synctest.Test(t, func(t *testing.T) {
		sim := &simrt.Sim{Seed: seed, MaxYields: 100000}
		simrt.Start(sim)
		defer simrt.Stop()
		simrt.Register("consumer")
		ds := &relDS{hist: g.hist, failAt: failAt, failErr: errors.New("boom")}
		o := annotate.NewChildFirstOrdering(context.Background(), g.ids, ds)
		var out []osm.RelationID
		for stopAfter < 0 || len(out) < stopAfter {
			simrt.Yield("consumer.Next")
			if !o.Next() {
				break
			}
			out = append(out, o.RelationID())
		}
		stopped := stopAfter >= 0 && len(out) == stopAfter
		err := o.Err()
		simrt.Yield("consumer.Close")
		o.Close()
		if o.Next() {
			bad("Next true after Close")
		}
		time.Sleep(time.Hour)
		if sim.Live() != 0 {
			bad("producer goroutine alive after Close")
		}
		// oracle
		seen := map[osm.RelationID]int{}
		for i, id := range out {
			if _, ok := seen[id]; ok {
				bad("id %d emitted twice", id)
			}
			seen[id] = i
			if _, ok := g.hist[id]; !ok {
				bad("id %d emitted without history", id)
			}
		}
		failed := failAt > 0 && ds.calls >= failAt
		if failed {
			if err == nil || err.Error() != "boom" {
				bad("datasource error not reported: %v", err)
			}
			return
		}
		if !stopped {
			if err != nil {
				bad("unexpected Err %v", err)
			}
			for _, id := range g.ids {
				if _, ok := g.hist[id]; ok {
					if _, em := seen[id]; !em {
						bad("requested id %d with history not emitted (out=%v ids=%v)", id, out, g.ids)
					}
				}
			}
		}
		if g.dag {
			for id, pos := range seen {
				for c := range g.reach(id) {
					cp, ok := seen[c]
					if !ok {
						if !stopped {
							bad("child %d of %d never emitted", c, id)
						}
						continue
					}
					if cp > pos {
						bad("child %d emitted after parent %d", c, id)
					}
				}
			}
		}
	})
	return
}

func TestOrdering(t *testing.T) {
	classes := map[string]int{}
	var first string
	runs := 0
	for seed := int64(1); seed <= 1500; seed++ {
		rng := rand.New(rand.NewSource(seed))
		g := genGraph(rng)
		variants := [][2]int{{-1, 0}, {rng.Intn(4), 0}, {-1, 1 + rng.Intn(5)}}
		for _, v := range variants {
			msgs := c14run(t, uint64(seed), g, v[0], v[1])
			runs++
			for _, m := range msgs {
				c := m
				if len(c) > 40 {
					c = c[:40]
				}
				classes[c]++
				if first == "" {
					first = fmt.Sprintf("seed %d stop=%d fail=%d dag=%v: %s", seed, v[0], v[1], g.dag, m)
				}
			}
		}
	}
	t.Logf("runs=%d classes=%v", runs, classes)
	t.Logf("first: %s", first)
}
