package h

import (
	"bytes"
	"compress/zlib"
	"encoding/binary"
)

type W struct{ b []byte }

func (w *W) varint(v uint64) {
	for v >= 0x80 {
		w.b = append(w.b, byte(v)|0x80)
		v >>= 7
	}
	w.b = append(w.b, byte(v))
}
func zz(v int64) uint64 { return uint64((v << 1) ^ (v >> 63)) }
func (w *W) tag(f, wt int)         { w.varint(uint64(f<<3 | wt)) }
func (w *W) Varint(f int, v uint64) { w.tag(f, 0); w.varint(v) }
func (w *W) Bytes(f int, b []byte)  { w.tag(f, 2); w.varint(uint64(len(b))); w.b = append(w.b, b...) }
func packedS(vs []int64) []byte {
	w := &W{}
	for _, v := range vs {
		w.varint(zz(v))
	}
	return w.b
}
func packedU(vs []uint64) []byte {
	w := &W{}
	for _, v := range vs {
		w.varint(v)
	}
	return w.b
}

func fileBlock(typ string, payload []byte, useZlib bool) []byte {
	blob := &W{}
	if useZlib {
		var zb bytes.Buffer
		zw := zlib.NewWriter(&zb)
		zw.Write(payload)
		zw.Close()
		blob.Varint(2, uint64(len(payload)))
		blob.Bytes(3, zb.Bytes())
	} else {
		blob.Bytes(1, payload)
	}
	hdr := &W{}
	hdr.Bytes(1, []byte(typ))
	hdr.Varint(3, uint64(len(blob.b)))
	out := make([]byte, 4)
	binary.BigEndian.PutUint32(out, uint32(len(hdr.b)))
	out = append(out, hdr.b...)
	out = append(out, blob.b...)
	return out
}

func headerBlock() []byte {
	h := &W{}
	h.Bytes(4, []byte("OsmSchema-V0.6"))
	h.Bytes(4, []byte("DenseNodes"))
	h.Bytes(16, []byte("probe"))
	return fileBlock("OSMHeader", h.b, true)
}

// dense block with n nodes with ids start..start+n-1
func denseBlock(start int64, n int, z bool) []byte {
	st := &W{}
	st.Bytes(1, []byte(""))
	st.Bytes(1, []byte("k"))
	st.Bytes(1, []byte("v"))
	ids := make([]int64, n)
	lats := make([]int64, n)
	lons := make([]int64, n)
	var kv []uint64
	for i := 0; i < n; i++ {
		if i == 0 {
			ids[i] = start
		} else {
			ids[i] = 1
		}
		lats[i] = 10
		lons[i] = -10
		kv = append(kv, 1, 2, 0)
	}
	d := &W{}
	d.Bytes(1, packedS(ids))
	d.Bytes(8, packedS(lats))
	d.Bytes(9, packedS(lons))
	d.Bytes(10, packedU(kv))
	g := &W{}
	g.Bytes(2, d.b)
	pb := &W{}
	pb.Bytes(1, st.b)
	pb.Bytes(2, g.b)
	return fileBlock("OSMData", pb.b, z)
}
