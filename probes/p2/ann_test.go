package h

import (
	"context"
	"fmt"
	"math/rand"
	"sort"
	"testing"
	"time"

	"github.com/paulmach/osm"
	"github.com/paulmach/osm/annotate"
	"github.com/paulmach/osm/simrt"
)

var base = time.Date(2015, 1, 1, 0, 0, 0, 0, time.UTC)

type hist struct {
	nodes map[osm.NodeID][]*osm.Node // versions ascending
	ways  osm.Ways
}

func genHist(rng *rand.Rand, th time.Duration) hist {
	h := hist{nodes: map[osm.NodeID][]*osm.Node{}}
	nNodes := 1 + rng.Intn(5)
	span := 200 + rng.Intn(20000) // seconds
	for id := 1; id <= nNodes; id++ {
		nv := 1 + rng.Intn(8)
		times := make([]int, nv)
		for i := range times {
			times[i] = 100 + rng.Intn(span)
		}
		if rng.Intn(3) == 0 { // create ties
			for i := 1; i < nv; i++ {
				if rng.Intn(2) == 0 {
					times[i] = times[i-1]
				}
			}
		}
		sort.Ints(times)
		times[0] = rng.Intn(100) // first version before all ways
		ver := 0
		for i := 0; i < nv; i++ {
			ver += 1 + rng.Intn(2)*rng.Intn(2) // gaps sometimes
			c := base.Add(time.Duration(times[i]) * time.Second)
			h.nodes[osm.NodeID(id)] = append(h.nodes[osm.NodeID(id)], &osm.Node{
				ID: osm.NodeID(id), Version: ver, Visible: true, ChangesetID: osm.ChangesetID(1000*id + ver),
				Timestamp: c, Committed: &c, Lat: float64(id) + float64(ver)/100, Lon: -float64(id) - float64(ver)/100,
			})
		}
	}
	nWays := 1 + rng.Intn(4)
	wt := make([]int, nWays)
	for i := range wt {
		wt[i] = 100 + rng.Intn(span)
	}
	sort.Ints(wt)
	for i := 0; i < nWays; i++ {
		c := base.Add(time.Duration(wt[i]) * time.Second)
		w := &osm.Way{ID: 7, Version: i + 1, Visible: true, ChangesetID: osm.ChangesetID(50 + i), Timestamp: c, Committed: &c}
		nn := 1 + rng.Intn(6)
		for j := 0; j < nn; j++ {
			w.Nodes = append(w.Nodes, osm.WayNode{ID: osm.NodeID(1 + rng.Intn(nNodes))})
		}
		h.ways = append(h.ways, w)
	}
	return h
}

func (h hist) currentAt(id osm.NodeID, t time.Time) *osm.Node {
	var cur *osm.Node
	for _, n := range h.nodes[id] {
		if n.Committed.After(t) {
			break
		}
		cur = n
	}
	return cur
}

func cloneWays(ws osm.Ways) osm.Ways {
	out := make(osm.Ways, len(ws))
	for i, w := range ws {
		c := *w
		c.Nodes = append(osm.WayNodes(nil), w.Nodes...)
		c.Updates = nil
		out[i] = &c
	}
	return out
}

func (h hist) ds() *osm.HistoryDatasource {
	o := &osm.OSM{}
	for _, vs := range h.nodes {
		for _, n := range vs {
			c := *n
			o.Nodes = append(o.Nodes, &c)
		}
	}
	return o.HistoryDatasource()
}

func TestAnnotate(t *testing.T) {
	ths := []time.Duration{0, time.Second, time.Minute, 30 * time.Minute}
	var nondet, unsorted, wrongCur, wrongTT, errs, total, ttChecks, wrongTTunsorted int
	var firstMsg string
	note := func(p *int, f string, a ...interface{}) {
		*p++
		if firstMsg == "" && p == &wrongTT {
			firstMsg = fmt.Sprintf(f, a...)
		}
	}
	for seed := int64(1); seed <= 20000; seed++ {
		rng := rand.New(rand.NewSource(seed))
		th := ths[rng.Intn(len(ths))]
		h := genHist(rng, th)
		var outs []string
		var first osm.Ways
		failed := false
		for k := 0; k < 6; k++ {
			sim := &simrt.Sim{Seed: uint64(seed*10 + int64(k))}
			simrt.Start(sim)
			simrt.Register("main")
			ws := cloneWays(h.ways)
			err := annotate.Ways(context.Background(), ws, h.ds(), annotate.Threshold(th))
			simrt.Stop()
			if err != nil {
				outs = append(outs, "ERR")
				failed = true
				continue
			}
			outs = append(outs, fmt.Sprint(dump(ws)))
			if first == nil {
				first = ws
			}
		}
		total++
		if failed {
			errs++
		}
		for _, o := range outs[1:] {
			if o != outs[0] {
				note(&nondet, "seed %d nondeterministic:\n%s\n%s", seed, outs[0], o)
				break
			}
		}
		if first == nil {
			continue
		}
		for i, w := range first {
			// ordering
			sortedOK := true
			for k := 1; k < len(w.Updates); k++ {
				a, b := w.Updates[k-1], w.Updates[k]
				if a.Index > b.Index || (a.Index == b.Index && (a.Timestamp.After(b.Timestamp) || (a.Timestamp.Equal(b.Timestamp) && a.Version > b.Version))) {
					note(&unsorted, "seed %d way v%d updates unsorted", seed, w.Version)
					sortedOK = false
					break
				}
			}
			T := *w.Committed
			for j, wn := range w.Nodes {
				cur := h.currentAt(wn.ID, T)
				if cur == nil || cur.Version != wn.Version || cur.Lat != wn.Lat {
					note(&wrongCur, "seed %d way v%d node[%d]=%d annotated v%d expected %v", seed, w.Version, j, wn.ID, wn.Version, cur)
				}
			}
			// time travel
			end := base.Add(40000 * time.Second)
			if i+1 < len(first) {
				end = first[i+1].Committed.Add(-th)
			}
			for q := 0; q < 4; q++ {
				if !end.After(T) {
					break
				}
				tq := T.Add(time.Duration(rng.Int63n(int64(end.Sub(T)))))
				tq = tq.Truncate(time.Second)
				if tq.Before(T) {
					tq = T
				}
				c := *w
				c.Nodes = append(osm.WayNodes(nil), w.Nodes...)
				c.Updates = append(osm.Updates(nil), w.Updates...)
				if err := c.ApplyUpdatesUpTo(tq); err != nil {
					t.Fatal(err)
				}
				ttChecks++
				for j, wn := range c.Nodes {
					cur := h.currentAt(wn.ID, tq)
					if cur.Version != wn.Version && !sortedOK {
						wrongTTunsorted++
					}
					if cur.Version != wn.Version && sortedOK {
						note(&wrongTT, "seed %d th=%v way v%d @%v node[%d]=%d has v%d expected v%d updates=%v", seed, th, w.Version, tq.Sub(base), j, wn.ID, wn.Version, cur.Version, w.Updates)
					}
				}
			}
		}
	}
	t.Logf("total=%d errs=%d nondet=%d unsorted=%d wrongCurrent=%d wrongTimeTravel=%d (of %d tt checks)", total, errs, nondet, unsorted, wrongCur, wrongTT, ttChecks)
	t.Logf("wrongTT in unsorted ways: %d", wrongTTunsorted)
	t.Logf("first: %s", firstMsg)
}

func dump(ws osm.Ways) string {
	s := ""
	for _, w := range ws {
		s += fmt.Sprintf("v%d %v %v\n", w.Version, w.Nodes, w.Updates)
	}
	return s
}
