package h

import (
	"context"
	"fmt"
	"math/rand"
	"testing"
	"time"

	"github.com/paulmach/osm"
	"github.com/paulmach/osm/annotate"
	"github.com/paulmach/osm/simrt"
)

// pre-commit regime: no Committed times, timestamps before 2012-09-12.
// Uploads are separated by > 2*th + skew; inside an upload every element gets uploadTime + jitter (|jitter| < th, here < th/2).
func TestAnnotatePre(t *testing.T) {
	base := time.Date(2009, 1, 1, 0, 0, 0, 0, time.UTC)
	ths := []time.Duration{time.Second * 10, time.Minute, 30 * time.Minute, 2 * time.Hour}
	var wrongCur, wrongTT, errs, total, tt, nondet, unsorted int
	var first string
	note := func(p *int, f string, a ...interface{}) {
		*p++
		if first == "" {
			first = fmt.Sprintf(f, a...)
		}
	}
	for seed := int64(1); seed <= 20000; seed++ {
		rng := rand.New(rand.NewSource(seed))
		th := ths[rng.Intn(len(ths))]
		skew := th / 2
		gap := 2*th + 2*skew + time.Second
		nNodes := 1 + rng.Intn(5)
		nUploads := 3 + rng.Intn(12)
		type ver struct {
			upload int
			n      *osm.Node
		}
		nodes := map[osm.NodeID][]ver{}
		var ways osm.Ways
		var wayUpload []int
		jit := func() time.Duration {
			if skew < time.Second {
				return 0
			}
			return time.Duration(rng.Int63n(int64(skew/time.Second))) * time.Second * time.Duration(1-2*rng.Intn(2))
		}
		uploadTime := func(u int) time.Time { return base.Add(time.Duration(u+1) * (gap + time.Duration(rng.Intn(5))*0)) }
		nextVer := map[osm.NodeID]int{}
		for u := 0; u < nUploads; u++ {
			ut := base.Add(time.Duration(u+1) * gap)
			_ = uploadTime
			cs := osm.ChangesetID(100 + u)
			// nodes edited in this upload
			for id := 1; id <= nNodes; id++ {
				if u == 0 || rng.Intn(3) == 0 {
					nextVer[osm.NodeID(id)]++
					v := nextVer[osm.NodeID(id)]
					nodes[osm.NodeID(id)] = append(nodes[osm.NodeID(id)], ver{u, &osm.Node{ID: osm.NodeID(id), Version: v, Visible: true, ChangesetID: cs,
						Timestamp: ut.Add(jit()), Lat: float64(id) + float64(v)/100, Lon: -float64(id)}})
				}
			}
			if u > 0 && (rng.Intn(3) == 0 || (u == nUploads/2 && len(ways) == 0)) {
				w := &osm.Way{ID: 7, Version: len(ways) + 1, Visible: true, ChangesetID: cs, Timestamp: ut.Add(jit())}
				for j := 1 + rng.Intn(5); j > 0; j-- {
					w.Nodes = append(w.Nodes, osm.WayNode{ID: osm.NodeID(1 + rng.Intn(nNodes))})
				}
				ways = append(ways, w)
				wayUpload = append(wayUpload, u)
			}
		}
		if len(ways) == 0 {
			continue
		}
		cur := func(id osm.NodeID, upload int) *osm.Node {
			var c *osm.Node
			for _, v := range nodes[id] {
				if v.upload <= upload {
					c = v.n
				}
			}
			return c
		}
		hd := &osm.OSM{}
		for _, vs := range nodes {
			for _, v := range vs {
				c := *v.n
				hd.Nodes = append(hd.Nodes, &c)
			}
		}
		var outs []string
		var firstWs osm.Ways
		for k := 0; k < 4; k++ {
			sim := &simrt.Sim{Seed: uint64(seed*10 + int64(k))}
			simrt.Start(sim)
			simrt.Register("main")
			ws := cloneWays(ways)
			hc := &osm.OSM{}
			for _, n := range hd.Nodes {
				c := *n
				hc.Nodes = append(hc.Nodes, &c)
			}
			err := annotate.Ways(context.Background(), ws, hc.HistoryDatasource(), annotate.Threshold(th))
			simrt.Stop()
			if err != nil {
				outs = append(outs, "ERR "+err.Error())
				continue
			}
			outs = append(outs, dump(ws))
			if firstWs == nil {
				firstWs = ws
			}
		}
		total++
		for _, o := range outs[1:] {
			if o != outs[0] {
				note(&nondet, "seed %d nondeterministic", seed)
				break
			}
		}
		if firstWs == nil {
			note(&errs, "seed %d th=%v: %s", seed, th, outs[0])
			continue
		}
		for i, w := range firstWs {
			sortedOK := true
			for k := 1; k < len(w.Updates); k++ {
				a, b := w.Updates[k-1], w.Updates[k]
				if a.Index > b.Index || (a.Index == b.Index && (a.Timestamp.After(b.Timestamp) || (a.Timestamp.Equal(b.Timestamp) && a.Version > b.Version))) {
					sortedOK = false
				}
			}
			if !sortedOK {
				unsorted++
				continue
			}
			for j, wn := range w.Nodes {
				c := cur(wn.ID, wayUpload[i])
				if c == nil || c.Version != wn.Version {
					note(&wrongCur, "seed %d th=%v way v%d (upload %d, ts %v) node[%d]=%d annotated v%d expected %v", seed, th, w.Version, wayUpload[i], w.Timestamp.Sub(base), j, wn.ID, wn.Version, c)
				}
			}
			// time travel at instants between uploads: middle of gap after upload u, for u in [wayUpload[i], nextWayUpload-1)
			endU := nUploads
			if i+1 < len(firstWs) {
				endU = wayUpload[i+1]
			}
			for u := wayUpload[i]; u < endU-0; u++ {
				if i+1 < len(firstWs) && u >= endU-1 {
					// instants in the gap right before the next parent upload are within "less the threshold"? the mid-gap instant is > th before next upload
				}
				tq := base.Add(time.Duration(u+1)*gap + gap/2)
				if i+1 < len(firstWs) && u == endU-1 {
					// mid gap before next parent's upload: still more than th before it (gap/2 > th)
				}
				if u >= endU {
					break
				}
				c := *w
				c.Nodes = append(osm.WayNodes(nil), w.Nodes...)
				c.Updates = append(osm.Updates(nil), w.Updates...)
				if err := c.ApplyUpdatesUpTo(tq); err != nil {
					t.Fatal(err)
				}
				tt++
				for j, wn := range c.Nodes {
					want := cur(wn.ID, u)
					if want.Version != wn.Version {
						note(&wrongTT, "seed %d th=%v way v%d upload %d query after upload %d node[%d]=%d has v%d want v%d; updates=%v", seed, th, w.Version, wayUpload[i], u, j, wn.ID, wn.Version, want.Version, w.Updates)
					}
				}
			}
		}
	}
	t.Logf("total=%d errs=%d nondet=%d unsortedWays=%d wrongCurrent=%d wrongTimeTravel=%d (of %d)", total, errs, nondet, unsorted, wrongCur, wrongTT, tt)
	t.Logf("first: %s", first)
}
