package h

import (
	"fmt"
	"hash/fnv"
	"math/rand"
	"testing"

	"github.com/paulmach/osm"
)

func objHash(o osm.Object) uint64 {
	h := fnv.New64a()
	switch x := o.(type) {
	case *osm.Node:
		fmt.Fprint(h, "n", x.ID, x.Version, x.User, len(x.Tags), x.Tags)
	case *osm.Way:
		fmt.Fprint(h, "w", x.ID, x.Version, x.User, len(x.Tags), x.Tags, len(x.Nodes))
	case *osm.Relation:
		fmt.Fprint(h, "r", x.ID, x.Version, x.User, len(x.Tags), x.Tags, len(x.Members))
	}
	return h.Sum64()
}

func pred(kind int, o osm.Object) bool {
	switch kind {
	case 0:
		return true
	case 1:
		return false
	case 2:
		return int64(o.ObjectID().Ref())%2 == 0
	case 3:
		return objHash(o)%3 != 0
	case 4: // tagged only
		switch x := o.(type) {
		case *osm.Node:
			return len(x.Tags) > 0
		case *osm.Way:
			return len(x.Tags) > 0
		case *osm.Relation:
			return len(x.Tags) > 0
		}
	}
	return true
}

func snapshot(o osm.Object) string {
	switch x := o.(type) {
	case *osm.Node:
		return fmt.Sprintf("%+v", *x)
	case *osm.Way:
		return fmt.Sprintf("%+v", *x)
	case *osm.Relation:
		return fmt.Sprintf("%+v", *x)
	}
	return ""
}

func TestFilters(t *testing.T) {
	bad := map[string]int{}
	var first string
	fail := func(cls, f string, a ...interface{}) {
		bad[cls]++
		if first == "" {
			first = cls + ": " + fmt.Sprintf(f, a...)
		}
	}
	files := 0
	for seed := int64(1); seed <= 4000; seed++ {
		rng := rand.New(rand.NewSource(seed))
		fm := genFile(rng)
		mask := rng.Intn(8)
		procs := 1 + rng.Intn(4)
		kn, kw, kr := rng.Intn(5), rng.Intn(5), rng.Intn(5)
		var want []osm.Object
		for _, os := range fm.objs {
			for _, o := range os {
				if !keep(o, mask) {
					continue
				}
				k := kn
				switch o.(type) {
				case *osm.Way:
					k = kw
				case *osm.Relation:
					k = kr
				}
				if pred(k, o) {
					want = append(want, o)
				}
			}
		}
		sc := newScanner(fm.data, procs, mask)
		sc.FilterNode = func(n *osm.Node) bool { return pred(kn, n) }
		sc.FilterWay = func(w *osm.Way) bool { return pred(kw, w) }
		sc.FilterRelation = func(r *osm.Relation) bool { return pred(kr, r) }
		var got []osm.Object
		var snaps []string
		for sc.Scan() {
			got = append(got, sc.Object())
			snaps = append(snaps, snapshot(sc.Object()))
		}
		if sc.Err() != nil {
			fail("err", "seed %d %v", seed, sc.Err())
		}
		sc.Close()
		if len(got) != len(want) {
			fail("count", "seed %d mask %d preds %d %d %d got %d want %d", seed, mask, kn, kw, kr, len(got), len(want))
			continue
		}
		for i := range want {
			if m := eqObj(want[i], got[i]); m != "" {
				fail("object", "seed %d i=%d: %s", seed, i, m)
				break
			}
			if snapshot(got[i]) != snaps[i] {
				fail("mutated-after-return", "seed %d i=%d", seed, i)
				break
			}
		}
		files++
	}
	t.Logf("files=%d bad=%v", files, bad)
	t.Logf("first: %s", first)
}
