package h

import (
	"context"
	"fmt"
	"math/rand"
	"testing"

	"github.com/paulmach/osm"
	"github.com/paulmach/osm/annotate"
)

func TestChange(t *testing.T) {
	classes := map[string]int{}
	var first string
	bad := func(seed int64, f string, a ...interface{}) {
		m := fmt.Sprintf(f, a...)
		c := m
		if len(c) > 40 {
			c = c[:40]
		}
		classes[c]++
		if first == "" {
			first = fmt.Sprintf("seed %d: %s", seed, m)
		}
	}
	for seed := int64(1); seed <= 20000; seed++ {
		rng := rand.New(rand.NewSource(seed))
		hist := &osm.OSM{}
		change := &osm.Change{}
		type exp struct {
			kind     string // create|modify|delete|error
			typ      osm.Type
			id       int64
			ver      int
			oldVer   int
		}
		var want []exp
		ignore := rng.Intn(2) == 0
		expectErr := false
		// per section elements
		section := func(name string, add func(osm.Object)) []exp {
			var out []exp
			for _, typ := range []osm.Type{osm.TypeNode, osm.TypeWay, osm.TypeRelation} {
				for n := rng.Intn(3); n > 0; n-- {
					id := int64(rng.Intn(1000) + 1)
					ver := 2 + rng.Intn(6)
					// history versions: random subset of 1..ver+2 (unsorted), maybe missing entirely
					var hv []int
					if rng.Intn(5) != 0 {
						for v := 1; v <= ver+2; v++ {
							if rng.Intn(2) == 0 {
								hv = append(hv, v)
							}
						}
						rng.Shuffle(len(hv), func(i, j int) { hv[i], hv[j] = hv[j], hv[i] })
					}
					old := -1
					for _, v := range hv {
						if v < ver && v > old {
							old = v
						}
					}
					var o osm.Object
					switch typ {
					case osm.TypeNode:
						o = &osm.Node{ID: osm.NodeID(id), Version: ver}
						for _, v := range hv {
							hist.Nodes = append(hist.Nodes, &osm.Node{ID: osm.NodeID(id), Version: v, Visible: true})
						}
					case osm.TypeWay:
						o = &osm.Way{ID: osm.WayID(id), Version: ver}
						for _, v := range hv {
							hist.Ways = append(hist.Ways, &osm.Way{ID: osm.WayID(id), Version: v, Visible: true})
						}
					case osm.TypeRelation:
						o = &osm.Relation{ID: osm.RelationID(id), Version: ver}
						for _, v := range hv {
							hist.Relations = append(hist.Relations, &osm.Relation{ID: osm.RelationID(id), Version: v, Visible: true})
						}
					}
					add(o)
					e := exp{kind: name, typ: typ, id: id, ver: ver, oldVer: old}
					if name != "create" && old == -1 {
						if ignore {
							e.kind = "create"
						} else {
							e.kind = "error"
						}
					}
					out = append(out, e)
				}
			}
			return out
		}
		// ids may collide across sections; keep it simple: collisions make histories merge; skip those seeds
		c := section("create", change.AppendCreate)
		m := section("modify", change.AppendModify)
		d := section("delete", change.AppendDelete)
		ids := map[string]int{}
		for _, e := range append(append(append([]exp{}, c...), m...), d...) {
			ids[fmt.Sprint(e.typ, e.id)]++
		}
		dup := false
		for _, n := range ids {
			if n > 1 {
				dup = true
			}
		}
		if dup {
			continue
		}
		want = append(append(c, m...), d...)
		for _, e := range want {
			if e.kind == "error" {
				expectErr = true
			}
		}
		var opts []annotate.Option
		if ignore {
			opts = append(opts, annotate.IgnoreMissingChildren(true))
		}
		diff, err := annotate.Change(context.Background(), change, hist.HistoryDatasource(), opts...)
		if expectErr {
			if err == nil {
				bad(seed, "expected error, got none")
			} else if _, ok := err.(*annotate.NoVisibleChildError); !ok {
				if _, ok2 := err.(*annotate.NoHistoryError); !ok2 {
					bad(seed, "error type %T", err)
				}
			}
			continue
		}
		if err != nil {
			bad(seed, "unexpected error %v", err)
			continue
		}
		if len(diff.Actions) != len(want) {
			bad(seed, "actions %d want %d", len(diff.Actions), len(want))
			continue
		}
		for i, a := range diff.Actions {
			e := want[i]
			get := func(o *osm.OSM) (int, bool, bool) {
				if o == nil {
					return 0, false, false
				}
				els := o.Elements()
				if len(els) != 1 || els[0].FeatureID().Type() != e.typ || int64(els[0].FeatureID().Ref()) != e.id {
					return 0, false, false
				}
				vis := false
				switch x := els[0].(type) {
				case *osm.Node:
					vis = x.Visible
				case *osm.Way:
					vis = x.Visible
				case *osm.Relation:
					vis = x.Visible
				}
				return els[0].ElementID().Version(), vis, true
			}
			switch e.kind {
			case "create":
				v, vis, ok := get(a.OSM)
				if a.Type != osm.ActionCreate || !ok || v != e.ver || !vis || a.Old != nil || a.New != nil {
					bad(seed, "action %d create mismatch: %+v", i, a)
				}
			case "modify", "delete":
				ov, _, ok1 := get(a.Old)
				nv, nvis, ok2 := get(a.New)
				wt := osm.ActionModify
				if e.kind == "delete" {
					wt = osm.ActionDelete
				}
				if a.Type != wt || !ok1 || !ok2 || ov != e.oldVer || nv != e.ver || nvis != (e.kind == "modify") || a.OSM != nil {
					bad(seed, "action %d %s mismatch: type=%v old=%d(want %d) new=%d vis=%v", i, e.kind, a.Type, ov, e.oldVer, nv, nvis)
				}
			}
		}
	}
	t.Logf("classes=%v", classes)
	t.Logf("first: %s", first)
}
