package probe

import (
	"context"
	"fmt"
	"hash/fnv"
	"io"
	"math/rand"
	"sync"
	"testing"
	"testing/synctest"
	"time"

	"github.com/paulmach/osm"
	"github.com/paulmach/osm/osmpbf"
)

// DES scheduling: every yield is a sleep on the fake clock; delays from a per-name PRNG stream.
type des struct {
	seed  int64
	names sync.Map // name -> *stream
}
type stream struct {
	rng *rand.Rand
	eps time.Duration
	log []string
}

var residue int64
var residueMu sync.Mutex


func (d *des) get(name string) *stream {
	if v, ok := d.names.Load(name); ok {
		return v.(*stream)
	}
	h := fnv.New64a()
	fmt.Fprintf(h, "%d/%s", d.seed, name)
	s := &stream{rng: rand.New(rand.NewSource(int64(h.Sum64())))}
	// residue derived from the name deterministically: index by name table
	s.eps = time.Duration(nameResidue(name))
	v, _ := d.names.LoadOrStore(name, s)
	return v.(*stream)
}

func (d *des) Yield(name string) {
	s := d.get(name)
	const Q = int64(time.Microsecond)
	now := time.Now().UnixNano()
	target := now + int64(1+s.rng.Intn(50))*Q
	wake := (target/Q+1)*Q + int64(s.eps)
	time.Sleep(time.Duration(wake - now))
	s.log = append(s.log, fmt.Sprint(time.Now().UnixNano()))
}

type desReader struct {
	d    *des
	data []byte
	pos  int
}

func (r *desReader) Read(p []byte) (int, error) {
	r.d.Yield("reader")
	if r.pos >= len(r.data) {
		return 0, io.EOF
	}
	n := copy(p, r.data[r.pos:])
	if n > 7 {
		n = 7
	}
	r.pos += n
	return n, nil
}

func runDES(t *testing.T, seed int64, procs int, data []byte) string {
	var out string
	synctest.Test(t, func(t *testing.T) {
		d := &des{seed: seed}
		r := &desReader{d: d, data: data}
		sc := osmpbf.New(context.Background(), r, procs)
		sc.FilterNode = func(n *osm.Node) bool {
			d.Yield(fmt.Sprintf("filter-block-%d", (int64(n.ID)-1)/3))
			return true
		}
		var ids []string
		for {
			d.Yield("consumer")
			if !sc.Scan() {
				break
			}
			ids = append(ids, fmt.Sprintf("%d@%d", sc.Object().(*osm.Node).ID, time.Now().UnixNano()))
		}
		sc.Close()
		out = fmt.Sprint(ids, sc.Err())
		d.names.Range(func(k, v any) bool { return true })
		// per-name logs in fixed order
		for i := 0; i < 12; i++ {
			out += fmt.Sprint(d.get(fmt.Sprintf("filter-block-%d", i)).log)
		}
		out += fmt.Sprint(d.get("reader").log)
	})
	return out
}

func TestDES(t *testing.T) {
	data, _ := file(12, 3)
	start := time.Now()
	runs := 0
	distinct := map[string]bool{}
	for seed := int64(0); seed < 40; seed++ {
		for _, procs := range []int{1, 3, 12} {
			a := runDES(t, seed, procs, data)
			b := runDES(t, seed, procs, data)
			if a != b {
				t.Fatalf("nondeterministic seed=%d procs=%d\n%s\n%s", seed, procs, a, b)
			}
			distinct[a] = true
			runs += 2
		}
	}
	t.Logf("%d runs, %d distinct in %v", runs, len(distinct), time.Since(start))
}

func nameResidue(name string) int {
	switch name {
	case "reader":
		return 1
	case "consumer":
		return 2
	}
	var k int
	fmt.Sscanf(name, "filter-block-%d", &k)
	return 10 + k
}
