package probe

import (
	"context"
	"reflect"
	"sync"
	"testing"
	"testing/synctest"
)

func TestReflectSelect(t *testing.T) {
	synctest.Test(t, func(t *testing.T) {
		ctx, cancel := context.WithCancel(context.Background())
		c := make(chan int)
		var wg sync.WaitGroup
		wg.Add(1)
		var got int
		go func() {
			defer wg.Done()
			cases := []reflect.SelectCase{
				{Dir: reflect.SelectSend, Chan: reflect.ValueOf(c), Send: reflect.ValueOf(5)},
				{Dir: reflect.SelectRecv, Chan: reflect.ValueOf(ctx.Done())},
			}
			got, _, _ = reflect.Select(cases)
		}()
		synctest.Wait() // must return although goroutine is blocked in reflect.Select
		t.Log("wait returned; goroutine durably blocked in reflect.Select")
		cancel()
		wg.Wait()
		t.Log("chosen", got)
	})
}
