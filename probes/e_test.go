package probe

import (
	"context"
	"fmt"
	"io"
	"net/http"
	"strings"
	"testing"
	"time"

	"github.com/paulmach/osm/replication"
)

type rt struct {
	n       int
	missing map[uint64]bool
	max     uint64
	log     []string
}

func (r *rt) RoundTrip(req *http.Request) (*http.Response, error) {
	r.n++
	if r.n > 200 {
		return nil, fmt.Errorf("budget exceeded")
	}
	p := req.URL.Path
	r.log = append(r.log, p)
	var seq uint64
	if p == "/replication/minute/state.txt" {
		seq = r.max
	} else {
		var a, b, c uint64
		fmt.Sscanf(p, "/replication/minute/%03d/%03d/%03d.state.txt", &a, &b, &c)
		seq = a*1000000 + b*1000 + c
		if seq > r.max || seq == 0 || r.missing[seq] {
			return &http.Response{StatusCode: 404, Body: io.NopCloser(strings.NewReader(""))}, nil
		}
	}
	ts := time.Date(2020, 1, 1, 0, 0, 0, 0, time.UTC).Add(time.Duration(seq) * time.Minute)
	body := fmt.Sprintf("#x\nsequenceNumber=%d\ntimestamp=%s\n", seq, strings.ReplaceAll(ts.Format("2006-01-02T15:04:05Z"), ":", "\\:"))
	return &http.Response{StatusCode: 200, Body: io.NopCloser(strings.NewReader(body))}, nil
}

func TestSearch(t *testing.T) {
	r := &rt{max: 100, missing: map[uint64]bool{}}
	for i := uint64(40); i <= 50; i++ {
		r.missing[i] = true
	}
	ds := &replication.Datasource{BaseURL: "http://sim", Client: &http.Client{Transport: r}}
	q := time.Date(2020, 1, 1, 0, 0, 0, 0, time.UTC).Add(45*time.Minute + 30*time.Second)
	n, st, err := ds.MinuteStateAt(context.Background(), q)
	t.Log(n, st, err, r.n)
	t.Log(r.log)
}
