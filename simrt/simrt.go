// Package simrt is the simulation runtime that /verif's instrumenter (cmd/siminstr)
// links into a scratch copy of github.com/paulmach/osm.
//
// It is written in Go 1.16-compatible Go (no generics, no typed atomics) because it is
// compiled as part of the library's module, whose go directive is 1.16.
//
// With no simulation started every entry point is a pass-through (Yield does nothing,
// Go is `go`, Select is the native choice, MapKeys is a random order), so the
// instrumented copy behaves like the original.
//
// With a simulation started (inside a testing/synctest bubble) Yield sleeps the calling
// goroutine on the bubble's fake clock for a seeded number of quanta and every goroutine
// wakes at an instant nobody else wakes at, so a run is a discrete-event simulation whose
// interleaving is a pure function of the seed.  Nothing on the Yield path touches memory
// shared between simulated goroutines with a synchronising operation (no mutex, no shared
// atomic counter, no channel): that would order all accesses through the runtime and blind
// the race detector.
package simrt

import (
	"bytes"
	"fmt"
	"math/rand"
	"reflect"
	"runtime"
	"sort"
	"strconv"
	"strings"
	"sync"
	"sync/atomic"
	"time"
	"unsafe"
)

// Q is the quantum of the simulated clock in nanoseconds.  Wake instants are
// multiples of Q plus the goroutine's residue (its creation index, < Q).
const Q = int64(1000000)

// Event is one entry of a goroutine's local log.
type Event struct {
	T    int64  // simulated time (UnixNano of the bubble clock) at which the goroutine reached the site
	G    string // goroutine name
	Site string
	Len  int // channel length at the site, -1 if not a channel site
	Cap  int
}

// G is the per-goroutine simulation state.  Only its own goroutine touches it during a run.
type G struct {
	Name     string
	residue  int64
	state    uint64
	children int
	flat     bool
	mean     int64
	stalls   []Stall
	Log      []Event
	Yields   int64
	done     int32          // atomic: set by the goroutine when it returns
	last     unsafe.Pointer // atomic: *string, the site of the goroutine's latest yield (read only after a hang)
	lib      bool           // started by library code through Go()
}

// Stall makes the goroutines whose name contains Match sleep Quanta extra quanta at their AtYield-th yield.
type Stall struct {
	Match   string
	AtYield int64
	Quanta  int64
}

// Mean gives goroutines whose name contains Match a mean delay (in quanta).
type Mean struct {
	Match string
	Mean  int64
}

// Crash records a panic that escaped a library goroutine (a process crash in production).
type Crash struct {
	G     string
	Value string
	Stack string
}

// Sim is one simulated run.
type Sim struct {
	Seed         uint64
	Flat         bool     // every delay is one quantum, selects try cases in source order, map keys sorted
	FlatG        []string // goroutines (substring match) that are flattened individually (used by the shrinker)
	DefaultMean  int64    // mean delay in quanta (default 4)
	Means        []Mean   // first match wins
	SpeedClasses []int64  // goroutines no Mean matches get SpeedClasses[hash(SpeedSeed, name) % len] as their mean
	SpeedSeed    uint64
	Stalls       []Stall
	MaxYields    int64 // per goroutine; exceeding it aborts the run (livelock budget)
	NoLog        bool
	OnAbort      func(reason string)

	mu      sync.Mutex
	all     []*G
	crashes []Crash
	aborted int32
	reason  string
}

var cur unsafe.Pointer // *Sim

// Start makes s the current simulation.  Call inside the synctest bubble, before any simulated goroutine exists.
func Start(s *Sim) {
	resetTable()
	if s.DefaultMean <= 0 {
		s.DefaultMean = 4
	}
	atomic.StorePointer(&cur, unsafe.Pointer(s))
}

// Stop ends the current simulation.
func Stop() { atomic.StorePointer(&cur, nil) }

// Active reports whether a simulation is running.
func Active() bool { return get() != nil }

func get() *Sim { return (*Sim)(atomic.LoadPointer(&cur)) }

// ---- goroutine identity without shared synchronisation ----
//
// goroutine id -> *G in an open-addressed table of atomics. A key carries the generation of the
// simulation it belongs to (upper 16 bits), so entries of earlier simulations count as free
// slots and the table never has to be cleared; two goroutines only touch the same slot on a
// hash collision, so lookups add no happens-before edges between simulated goroutines.

const tabBits = 16
const tabSize = 1 << tabBits

var (
	tabKeys [tabSize]uint64
	tabVals [tabSize]unsafe.Pointer
	curGen  uint64 // atomic; 1..65535
)

func resetTable() {
	g := atomic.LoadUint64(&curGen) + 1
	if g > 0xffff {
		// generations wrap: clear the table once so that no stale key can look current
		for i := range tabKeys {
			atomic.StoreUint64(&tabKeys[i], 0)
		}
		g = 1
	}
	atomic.StoreUint64(&curGen, g)
}

func goid() uint64 {
	var buf [64]byte
	n := runtime.Stack(buf[:], false)
	b := buf[10:n] // after "goroutine "
	i := bytes.IndexByte(b, ' ')
	id, _ := strconv.ParseUint(string(b[:i]), 10, 64)
	return id
}

func slot(id uint64) uint64 { return (id * 0x9e3779b97f4a7c15) >> (64 - tabBits) }

func bind(g *G) {
	gen := atomic.LoadUint64(&curGen)
	key := gen<<48 | (goid() & 0xffffffffffff)
	i := slot(key & 0xffffffffffff)
	for n := 0; n < tabSize; n++ {
		k := atomic.LoadUint64(&tabKeys[i])
		if k>>48 != gen {
			// free, or left over from an earlier simulation
			if atomic.CompareAndSwapUint64(&tabKeys[i], k, key) {
				atomic.StorePointer(&tabVals[i], unsafe.Pointer(g))
				return
			}
			continue // lost the slot to another new goroutine: look at it again
		}
		i = (i + 1) & (tabSize - 1)
	}
	panic("simrt: more than 65536 goroutines in one simulated run")
}

func self() *G {
	gen := atomic.LoadUint64(&curGen)
	key := gen<<48 | (goid() & 0xffffffffffff)
	i := slot(key & 0xffffffffffff)
	for n := 0; n < tabSize; n++ {
		k := atomic.LoadUint64(&tabKeys[i])
		if k == key {
			return (*G)(atomic.LoadPointer(&tabVals[i]))
		}
		if k>>48 != gen {
			return nil
		}
		i = (i + 1) & (tabSize - 1)
	}
	return nil
}

// ---- seeded streams ----

func hash(seed uint64, s string) uint64 {
	h := seed ^ 0x9e3779b97f4a7c15
	for i := 0; i < len(s); i++ {
		h ^= uint64(s[i])
		h *= 0x100000001b3
	}
	return mix(h)
}

func mix(z uint64) uint64 {
	z += 0x9e3779b97f4a7c15
	z = (z ^ (z >> 30)) * 0xbf58476d1ce4e5b9
	z = (z ^ (z >> 27)) * 0x94d049bb133111eb
	return z ^ (z >> 31)
}

func (g *G) next() uint64 { g.state = mix(g.state); return g.state }

func (s *Sim) newG(name string, lib bool) *G {
	s.mu.Lock()
	g := &G{Name: name, residue: int64(len(s.all) + 1), state: hash(s.Seed, name), lib: lib}
	g.flat = s.Flat
	for _, m := range s.FlatG {
		if strings.Contains(name, m) {
			g.flat = true
		}
	}
	g.mean = s.DefaultMean
	if len(s.SpeedClasses) > 0 {
		g.mean = s.SpeedClasses[hash(s.SpeedSeed, name)%uint64(len(s.SpeedClasses))]
	}
	for _, m := range s.Means {
		if strings.Contains(name, m.Match) {
			g.mean = m.Mean
			break
		}
	}
	if g.mean < 1 {
		g.mean = 1
	}
	for _, st := range s.Stalls {
		if strings.Contains(name, st.Match) {
			g.stalls = append(g.stalls, st)
		}
	}
	s.all = append(s.all, g)
	s.mu.Unlock()
	return g
}

// Register names the calling (harness) goroutine and makes it a simulated one.
func Register(name string) {
	s := get()
	if s == nil {
		return
	}
	bind(s.newG(name, false))
}

// GoNamed starts fn as a simulated harness goroutine with a fixed name.
func GoNamed(name string, fn func()) {
	s := get()
	if s == nil {
		go fn()
		return
	}
	g := s.newG(name, false)
	go func() {
		bind(g)
		defer atomic.StoreInt32(&g.done, 1)
		Yield(name + ":start")
		fn()
	}()
}

// Go starts fn as a named, registered library goroutine (rewrite T1 of siminstr).
func Go(site string, fn func()) {
	s := get()
	if s == nil {
		go fn()
		return
	}
	parent := self()
	pname := "?"
	k := 0
	if parent != nil {
		pname = parent.Name
		parent.children++
		k = parent.children
	}
	g := s.newG(pname+"/"+site+"#"+strconv.Itoa(k), true)
	go func() {
		bind(g)
		defer func() {
			if r := recover(); r != nil {
				buf := make([]byte, 4096)
				buf = buf[:runtime.Stack(buf, false)]
				s.mu.Lock()
				s.crashes = append(s.crashes, Crash{G: g.Name, Value: fmt.Sprint(r), Stack: string(buf)})
				s.mu.Unlock()
				s.Abort("crash")
			}
			atomic.StoreInt32(&g.done, 1)
		}()
		Yield(site + ":start")
		fn()
	}()
}

// Abort ends the run early: library goroutines exit at their next yield; OnAbort is called once.
func (s *Sim) Abort(reason string) {
	if atomic.CompareAndSwapInt32(&s.aborted, 0, 1) {
		s.mu.Lock()
		s.reason = reason
		s.mu.Unlock()
		if s.OnAbort != nil {
			s.OnAbort(reason)
		}
	}
}

// Aborted returns the abort reason, "" if the run was not aborted.
func (s *Sim) Aborted() string {
	if atomic.LoadInt32(&s.aborted) == 0 {
		return ""
	}
	s.mu.Lock()
	defer s.mu.Unlock()
	return s.reason
}

// Crashes returns the panics captured in library goroutines.
func (s *Sim) Crashes() []Crash {
	s.mu.Lock()
	defer s.mu.Unlock()
	return append([]Crash(nil), s.crashes...)
}

// LiveLib returns the names of library goroutines that have not returned.
func (s *Sim) LiveLib() []string {
	s.mu.Lock()
	defer s.mu.Unlock()
	var out []string
	for _, g := range s.all {
		if g.lib && atomic.LoadInt32(&g.done) == 0 {
			out = append(out, g.Name)
		}
	}
	return out
}

// Blocked lists the goroutines that have not returned with the site of their latest yield.
// It reads only per-goroutine atomics, so it is safe after a hang.
func (s *Sim) Blocked() []string {
	s.mu.Lock()
	defer s.mu.Unlock()
	var out []string
	for _, g := range s.all {
		if atomic.LoadInt32(&g.done) == 0 {
			site := "?"
			if p := (*string)(atomic.LoadPointer(&g.last)); p != nil {
				site = *p
			}
			out = append(out, g.Name+"@"+site)
		}
	}
	return out
}

// Goroutines returns the names of all simulated goroutines in creation order.
func (s *Sim) Goroutines() []string {
	s.mu.Lock()
	defer s.mu.Unlock()
	var out []string
	for _, g := range s.all {
		out = append(out, g.Name)
	}
	return out
}

// TotalYields sums the yield counts of the caller and of every goroutine that has returned. Call after the run.
func (s *Sim) TotalYields() int64 {
	s.mu.Lock()
	defer s.mu.Unlock()
	var n int64
	me := self()
	for _, g := range s.all {
		if g == me || atomic.LoadInt32(&g.done) == 1 {
			n += g.Yields
		}
	}
	return n
}

// Yield is a delay point: the calling goroutine sleeps on the simulated clock.
func Yield(site string) { yield(site, -1, 0) }

// YieldChan is Yield at a channel operation; the channel's length and capacity are logged.
func YieldChan(site string, ch interface{}) {
	if get() == nil {
		return
	}
	l, c := -1, 0
	if ch != nil {
		v := reflect.ValueOf(ch)
		if v.Kind() == reflect.Chan && !v.IsNil() {
			l, c = v.Len(), v.Cap()
		}
	}
	yield(site, l, c)
}

func yield(site string, l, c int) {
	s := get()
	if s == nil {
		return
	}
	g := self()
	if g == nil {
		return
	}
	if g.lib && atomic.LoadInt32(&s.aborted) != 0 {
		// the run was aborted (a library goroutine panicked, i.e. the process would have died, or the
		// step budget ran out): library goroutines unwind at their next delay point, running their defers
		runtime.Goexit()
	}
	g.Yields++
	if s.MaxYields > 0 && g.Yields > s.MaxYields {
		s.Abort("budget")
	}
	d := int64(1)
	if !g.flat {
		d = int64(1 + g.next()%uint64(2*g.mean))
	}
	for _, st := range g.stalls {
		if st.AtYield == g.Yields {
			d += st.Quanta
		}
	}
	ls := site
	atomic.StorePointer(&g.last, unsafe.Pointer(&ls))
	now := time.Now().UnixNano()
	wake := ((now+d*Q)/Q+1)*Q + g.residue
	if !s.NoLog {
		g.Log = append(g.Log, Event{T: now, G: g.Name, Site: site, Len: l, Cap: c})
	}
	time.Sleep(time.Duration(wake - now))
}

// Note appends an observation to the calling goroutine's local log without yielding
// (Cap is -2 to tell notes from channel sites). Harness callbacks that run inside library
// goroutines use it so that they never share memory with each other.
func Note(site string, v int) {
	s := get()
	if s == nil || s.NoLog {
		return
	}
	g := self()
	if g == nil {
		return
	}
	g.Log = append(g.Log, Event{T: time.Now().UnixNano(), G: g.Name, Site: site, Len: v, Cap: -2})
}

type tryLocker interface {
	TryLock() bool
	Lock()
}

type tryRLocker interface {
	TryRLock() bool
	RLock()
}

// Lock acquires a sync.Mutex / sync.RWMutex (rewrite T5). Under simulation a goroutine that cannot get the
// lock sleeps on the simulated clock and tries again, so the holder - which may be asleep at a delay point - can run.
func Lock(site string, l tryLocker) {
	if get() == nil || self() == nil {
		l.Lock()
		return
	}
	for !l.TryLock() {
		yield(site+":contended", -1, 0)
	}
}

// LockLocker is Lock for a sync.Locker value (e.g. the L of a sync.Cond).
func LockLocker(site string, l sync.Locker) {
	if tl, ok := l.(tryLocker); ok {
		Lock(site, tl)
		return
	}
	l.Lock()
}

// RLock is Lock for the read side of a sync.RWMutex.
func RLock(site string, l tryRLocker) {
	if get() == nil || self() == nil {
		l.RLock()
		return
	}
	for !l.TryRLock() {
		yield(site+":contended", -1, 0)
	}
}

// Case is one case of a simulated select.
type Case struct{ c reflect.SelectCase }

// Recv builds a receive case.
func Recv(ch interface{}) Case {
	return Case{reflect.SelectCase{Dir: reflect.SelectRecv, Chan: reflect.ValueOf(ch)}}
}

// Send builds a send case.
func Send(ch interface{}, v interface{}) Case {
	cv := reflect.ValueOf(ch)
	var sv reflect.Value
	if cv.IsValid() && cv.Kind() == reflect.Chan {
		et := cv.Type().Elem()
		if v == nil {
			sv = reflect.Zero(et)
		} else {
			sv = reflect.ValueOf(v)
			if !sv.Type().AssignableTo(et) && sv.Type().ConvertibleTo(et) {
				sv = sv.Convert(et)
			}
		}
	}
	return Case{reflect.SelectCase{Dir: reflect.SelectSend, Chan: cv, Send: sv}}
}

// Sel is the result of a simulated select.
type Sel struct {
	I  int
	V  reflect.Value
	OK bool
}

// Into stores the received value into *ptr.
func (s Sel) Into(ptr interface{}) {
	reflect.ValueOf(ptr).Elem().Set(s.V)
}

// Select is the simulator-decided replacement of a select statement without default (rewrite T3).
func Select(site string, cases ...Case) Sel {
	rc := make([]reflect.SelectCase, len(cases))
	for i := range cases {
		rc[i] = cases[i].c
	}
	s := get()
	var g *G
	if s != nil {
		g = self()
	}
	if g == nil {
		i, v, ok := reflect.Select(rc)
		return Sel{i, v, ok}
	}
	yield(site, -1, 0)
	n := len(rc)
	order := make([]int, n)
	for i := range order {
		order[i] = i
	}
	if !g.flat {
		for i := n - 1; i > 0; i-- {
			j := int(g.next() % uint64(i+1))
			order[i], order[j] = order[j], order[i]
		}
	}
	two := make([]reflect.SelectCase, 2)
	two[1] = reflect.SelectCase{Dir: reflect.SelectDefault}
	for _, i := range order {
		if !rc[i].Chan.IsValid() || rc[i].Chan.IsNil() {
			continue
		}
		two[0] = rc[i]
		if c, v, ok := reflect.Select(two); c == 0 {
			yield(site+":after", -1, 0)
			return Sel{i, v, ok}
		}
	}
	i, v, ok := reflect.Select(rc)
	yield(site+":after", -1, 0)
	return Sel{i, v, ok}
}

var ptRand = rand.New(rand.NewSource(time.Now().UnixNano()))
var ptMu sync.Mutex

// MapKeys returns the keys of map m as a []K in a seeded order (rewrite T4).
func MapKeys(site string, m interface{}) interface{} {
	v := reflect.ValueOf(m)
	keys := v.MapKeys()
	sort.Slice(keys, func(i, j int) bool { return less(keys[i], keys[j]) })
	s := get()
	var g *G
	if s != nil {
		g = self()
	}
	switch {
	case g != nil && !g.flat:
		for i := len(keys) - 1; i > 0; i-- {
			j := int(g.next() % uint64(i+1))
			keys[i], keys[j] = keys[j], keys[i]
		}
	case g == nil && s == nil:
		ptMu.Lock()
		ptRand.Shuffle(len(keys), func(i, j int) { keys[i], keys[j] = keys[j], keys[i] })
		ptMu.Unlock()
	}
	out := reflect.MakeSlice(reflect.SliceOf(v.Type().Key()), len(keys), len(keys))
	for i, k := range keys {
		out.Index(i).Set(k)
	}
	return out.Interface()
}

func less(a, b reflect.Value) bool {
	switch a.Kind() {
	case reflect.Int, reflect.Int8, reflect.Int16, reflect.Int32, reflect.Int64:
		return a.Int() < b.Int()
	case reflect.Uint, reflect.Uint8, reflect.Uint16, reflect.Uint32, reflect.Uint64, reflect.Uintptr:
		return a.Uint() < b.Uint()
	case reflect.String:
		return a.String() < b.String()
	case reflect.Float32, reflect.Float64:
		return a.Float() < b.Float()
	}
	return fmt.Sprint(a.Interface()) < fmt.Sprint(b.Interface())
}

// Merged returns all events of all goroutines in simulated-time order. Call after the run.
func (s *Sim) Merged() []Event {
	s.mu.Lock()
	defer s.mu.Unlock()
	var all []Event
	me := self()
	for _, g := range s.all {
		// the log of a goroutine that never returned (blocked for good) is not read: it has no
		// happens-before edge to the caller
		if g == me || atomic.LoadInt32(&g.done) == 1 {
			all = append(all, g.Log...)
		}
	}
	sort.SliceStable(all, func(i, j int) bool {
		if all[i].T != all[j].T {
			return all[i].T < all[j].T
		}
		return all[i].G < all[j].G
	})
	return all
}
