#!/bin/bash
# Final pass: determinism self-test at 32 processes, then the thorough tier of every claimed property in /verif
# against /repo (this is what writes the committed evidence files).
export GOFLAGS=-mod=mod GOPROXY=off GOSUMDB=off GOTOOLCHAIN=local
cd /verif
seed=${1:-20261004}
echo "== determinism $(date)"; bin/verif selftest determinism --procs 32 2>&1 | tail -14
echo "== fidelity $(date)"; bin/verif selftest fidelity 2>&1 | tail -2
echo "== instr $(date)"; bin/verif selftest instr 2>&1 | tail -1
for id in C19 C20 C13 C14 C12 C11 C06 C09 C07 C01 C08 C02; do
  t0=$(date +%s)
  VERIF_SEED=$seed bin/verif check $id --tier thorough > /tmp/night-$id.log 2>&1; rc=$?
  echo "seed=$seed $id exit=$rc $(($(date +%s)-t0))s :: $(tail -1 /tmp/night-$id.log | cut -c1-220)"
  grep -E "^violation class|^VIOLATION|infrastructure|KNOWN-FINDING" /tmp/night-$id.log | cut -c1-200 | head -5
done
echo "== done $(date)"
