#!/usr/bin/env python3
"""Independently confirm agent-made seeded changes: for each /tmp/mut/<ID>/_out/<name>/ check in a fresh scratch worktree that
(1) with the patch: build + vet + the existing suite pass and the demo FAILS; (2) without the patch the demo PASSES.
Confirmed ones are copied to /verif/seeded/<name>/ with a 'verified' block added to meta.json.
usage: tools/verify_seeded.py <ID> [<ID>...]"""
import json, os, re, shutil, subprocess, sys, tempfile, glob, time
ENV = dict(os.environ, GOFLAGS="-mod=mod", GOPROXY="off", GOSUMDB="off", GOTOOLCHAIN="local")
SUITE = [".", "./annotate/...", "./internal/...", "./osmapi/...", "./osmgeojson/...", "./osmtest/...", "./osmxml/...", "./replication/..."]
def run(cmd, cwd, timeout=900):
    try:
        p = subprocess.run(cmd, cwd=cwd, env=ENV, stdout=subprocess.PIPE, stderr=subprocess.STDOUT, text=True, timeout=timeout)
        return p.returncode, p.stdout
    except subprocess.TimeoutExpired as e:
        return 124, "TIMEOUT " + str(e.stdout)[-500:]
for ID in sys.argv[1:]:
    for d in sorted(glob.glob("/tmp/mut/%s/_out/*/" % ID)):
        name = os.path.basename(d.rstrip("/"))
        patch = d + "patch.diff"
        if not os.path.exists(patch): print(name, "no patch"); continue
        meta = json.load(open(d + "meta.json"))
        tests = [f for f in os.listdir(d) if f.endswith("_test.go")]
        if not tests: print(name, "no demo test file"); continue
        tmp = tempfile.mkdtemp(prefix="vs.")
        wt = tmp + "/r"
        rec = {"at": time.strftime("%Y-%m-%dT%H:%M:%SZ", time.gmtime())}
        try:
            subprocess.check_call(["git","-C","/repo","worktree","add","--detach",wt,"HEAD"],stdout=subprocess.DEVNULL,stderr=subprocess.DEVNULL)
            # demo placement
            names = []
            pkgs = set()
            for tf in tests:
                src = open(d + tf).read()
                pkg = re.search(r"^package (\w+)", src, re.M).group(1).replace("_test", "")
                pdir = {"osm": "."}.get(pkg, None)
                if pdir is None:
                    cands = [p for p in glob.glob(wt + "/**/", recursive=True) if os.path.basename(p.rstrip("/")) == pkg and "internal/osmpbf" not in p]
                    pdir = os.path.relpath(cands[0], wt) if cands else pkg
                pkgs.add(pdir)
                names += re.findall(r"^func (Test\w+)\(", src, re.M)
                shutil.copy(d + tf, os.path.join(wt, pdir, "zz_" + tf))
            race = "-race" in json.dumps(meta)
            pdir = sorted(pkgs)[0]
            demo = ["go", "test", "-count=1", "-timeout", "300s", "-run", "^(" + "|".join(names) + ")$", "./" + pdir]
            if race: demo.insert(2, "-race")
            rc0, out0 = run(demo, wt)
            rec["demo_without_patch_exit"] = rc0
            rc, out = run(["git", "apply", patch], wt)
            if rc != 0: print(name, "patch does not apply", out); continue
            rcb, outb = run(["go", "build", "./..."], wt)
            rcv, outv = run(["go", "vet", "./" + pdir], wt)
            for tf in tests:  # suite without the demo
                pass
            # run suite with demos temporarily removed
            moved = []
            for tf in tests:
                for p in pkgs:
                    f = os.path.join(wt, p, "zz_" + tf)
                    if os.path.exists(f): os.rename(f, f + ".off"); moved.append(f)
            rcs, outs = run(["go", "test", "-count=1", "-timeout", "300s"] + SUITE, wt)
            for f in moved: os.rename(f + ".off", f)
            rc1, out1 = run(demo, wt)
            rec.update({"build_exit": rcb, "vet_exit": rcv, "suite_exit_with_patch": rcs, "demo_with_patch_exit": rc1, "demo_cmd": " ".join(demo)})
            ok = rc0 == 0 and rcb == 0 and rcv == 0 and rcs == 0 and rc1 != 0 and rc1 != 124
            rec["confirmed"] = ok
            print(name, "CONFIRMED" if ok else "NOT CONFIRMED", rec)
            if not ok:
                print("  without:", out0[-400:].replace("\n", " | "))
                print("  with:", out1[-400:].replace("\n", " | "), "suite:", outs[-300:].replace("\n"," | ") if rcs else "")
            if ok:
                dst = "/verif/seeded/" + name
                os.makedirs(dst, exist_ok=True)
                for f in os.listdir(d): shutil.copy(d + f, dst)
                meta["verified"] = rec
                meta["origin"] = "independent sub-agent given only the property text and a scratch worktree"
                json.dump(meta, open(dst + "/meta.json", "w"), indent=1)
        finally:
            subprocess.call(["git","-C","/repo","worktree","remove","--force",wt],stdout=subprocess.DEVNULL,stderr=subprocess.DEVNULL)
            shutil.rmtree(tmp, ignore_errors=True)
