#!/usr/bin/env python3
"""Build the hand-written sensitivity catalogue /verif/mutants/<name>/{patch.diff,meta.json} from (file, old, new) edits."""
import json, os, subprocess, tempfile, shutil, sys
M = [
 ("own-C02-reuse-object-slice", "C02", "osmpbf/decode_data.go",
  "	dec.q = make([]osm.Object, 0, 8000) // typical PrimitiveBlock contains 8k OSM entities\n",
  "	if dec.q == nil {\n		dec.q = make([]osm.Object, 0, 8000) // typical PrimitiveBlock contains 8k OSM entities\n	}\n	dec.q = dec.q[:0]\n",
  "worker reuses its output slice across blocks: objects of block i are overwritten by block i+n while still queued/held"),
 ("own-C01-stale-visibles", "C01", "osmpbf/decode_data.go",
  "			if !foundVisibles {\n				dec.visibles = nil\n			}\n", "			_ = foundVisibles\n",
  "visible column of an earlier block on the same worker is inherited when a later block has DenseInfo without it"),
 ("own-C07-worker-send-ignores-ctx", "C07", "osmpbf/decode.go",
  "				select {\n				case output <- out:\n				case <-dec.ctx.Done():\n				}\n", "				output <- out\n",
  "worker blocks forever on a full output channel after Close: Close deadlocks under back-pressure"),
 ("own-C09-offset-after-block", "C09", "osmpbf/decode.go",
  "			offset := dec.bytesRead\n			blobHeader, blob, err = dec.readFileBlock(sizeBuf, headerBuf, blobBuf)\n",
  "			blobHeader, blob, err = dec.readFileBlock(sizeBuf, headerBuf, blobBuf)\n			offset := dec.bytesRead\n",
  "reported offset is the end, not the start, of the block: resuming skips a block"),
 ("own-C06-unexpected-eof-is-eof", "C06", "osmpbf/scanner.go",
  "	if s.err == io.EOF {\n		return nil\n	}\n\n	if s.err != nil {\n		return s.err\n	}\n\n	if s.closed {",
  "	if s.err == io.EOF || s.err == io.ErrUnexpectedEOF {\n		return nil\n	}\n\n	if s.err != nil {\n		return s.err\n	}\n\n	if s.closed {",
  "a truncated block is reported as a clean end of input"),
 ("own-C08-rejected-way-keeps-tags", "C08", "osmpbf/decode_data.go",
  "				*way = osm.Way{Visible: true, Nodes: nodes[:0], Tags: tags[:0]}\n", "				*way = osm.Way{Visible: true, Nodes: nodes[:0], Tags: tags}\n",
  "tags of a rejected way leak into the next tagless way"),
 ("own-C02-serializer-skips-slow-worker", "C02", "osmpbf/decode.go",
  "			var p oPair\n			select {\n			case p = <-output:\n			case <-dec.ctx.Done():",
  "			var p oPair\n			if len(output) == 0 && len(dec.outputs[(i+1)%n]) > 0 && n > 1 {\n				continue\n			}\n			select {\n			case p = <-output:\n			case <-dec.ctx.Done():",
  "serializer skips an output whose block is not ready yet when the next worker already has one: order depends on decoder speed"),
]
for name, prop, path, old, new, why in M:
    tmp = tempfile.mkdtemp(prefix="mkmut.")
    try:
        subprocess.check_call(["git","-C","/repo","worktree","add","--detach",tmp+"/r","HEAD"],stdout=subprocess.DEVNULL,stderr=subprocess.DEVNULL)
        f = tmp+"/r/"+path
        s = open(f).read()
        assert s.count(old)==1, (name, s.count(old))
        open(f,"w").write(s.replace(old,new))
        env = dict(os.environ, GOFLAGS="-mod=mod", GOPROXY="off", GOSUMDB="off", GOTOOLCHAIN="local")
        subprocess.check_call(["go","build","./..."],cwd=tmp+"/r",env=env)
        diff = subprocess.check_output(["git","-C",tmp+"/r","diff"],text=True)
        d = "/verif/mutants/"+name
        os.makedirs(d, exist_ok=True)
        open(d+"/patch.diff","w").write(diff)
        json.dump({"property":prop,"title":name,"mechanism":why,"origin":"hand-written by the framework author (DESIGN.md 7.2), not independent"}, open(d+"/meta.json","w"), indent=1)
        print("ok", name)
    finally:
        subprocess.call(["git","-C","/repo","worktree","remove","--force",tmp+"/r"],stdout=subprocess.DEVNULL,stderr=subprocess.DEVNULL)
        shutil.rmtree(tmp, ignore_errors=True)
