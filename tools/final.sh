#!/bin/bash
# Last evidence-writing runs (properties whose evidence predates the fault-kind counters), then the generated parts of the documents.
export GOFLAGS=-mod=mod GOPROXY=off GOSUMDB=off GOTOOLCHAIN=local
cd /verif
for id in C08 C01 C02; do
  t0=$(date +%s)
  VERIF_SEED=20261004 bin/verif check $id --tier thorough > /tmp/final-$id.log 2>&1; rc=$?
  echo "evidence $id exit=$rc $(($(date +%s)-t0))s :: $(tail -1 /tmp/final-$id.log | cut -c1-200)"
  grep -E "^violation class|^VIOLATION|infrastructure" /tmp/final-$id.log | cut -c1-300 | head -5
done
python3 tools/mkevtable.py; python3 tools/mkcatch.py; python3 tools/mkmanifest.py
echo "== final done $(date)"
