#!/usr/bin/env python3
"""Writes section 12 of DESIGN.md (between the SECTION-12 markers) from seeded/RESULTS.json and the meta.json files."""
import json, os, glob
res = json.load(open("/verif/seeded/RESULTS.json"))
rows = []
for d in sorted(glob.glob("/verif/seeded/*/") + glob.glob("/verif/mutants/*/")):
    name = os.path.basename(d.rstrip("/"))
    if not os.path.exists(d + "meta.json"): continue
    m = json.load(open(d + "meta.json"))
    prop = m["property"]
    r = res.get(name, {})
    own = r.get(prop)
    others = sorted(p for p, v in r.items() if p != prop and v["exit"] == 1)
    if own is None:
        verdict, classes = "not run yet", ""
    elif own["exit"] == 1:
        verdict, classes = "caught (%s, %ss)" % (own.get("tier", "quick"), int(own["wall_s"])), ", ".join("`%s`" % c for c in own["classes"][:3]) + (" …" if len(own["classes"]) > 3 else "")
    elif own["exit"] == 0:
        verdict, classes = "**missed** (%s)" % own.get("tier", "quick"), ""
    else:
        verdict, classes = "infrastructure exit 2", ""
    title = m.get("title", name)
    needs = m.get("needs", m.get("mechanism", ""))
    if len(needs) > 230: needs = needs[:227] + "…"
    origin = "sub-agent" if d.startswith("/verif/seeded/") else "own"
    rows.append("| %s | %s | %s | %s | %s | %s | %s |" % (name, prop, origin, title.replace("|", "/"), needs.replace("|", "/").replace("\n", " "), verdict, classes + ((" ; also trips " + ", ".join(others)) if others else "")))
hdr = "| change | property | origin | what it does | needs, to manifest | owning check | violation classes |\n|---|---|---|---|---|---|---|\n"
text = open("/verif/tools/section12_intro.md").read() + "\n" + hdr + "\n".join(rows) + "\n\n" + (open("/verif/tools/section12_outro.md").read() if os.path.exists("/verif/tools/section12_outro.md") else "")
p = "/verif/DESIGN.md"
s = open(p).read()
b, e = "<!-- SECTION-12 -->", "<!-- SECTION-12-END -->"
if e not in s:
    s = s.replace(b, b + "\n" + e)
i, j = s.index(b) + len(b), s.index(e)
s = s[:i] + "\n" + text + "\n" + s[j:]
open(p, "w").write(s)
print(len(rows), "rows")
