#!/bin/bash
# Builds the driver in the current directory (a snapshot of /verif) and runs the thorough tier of the given properties
# sequentially against /repo. usage: tools/thorough_all.sh <seed> [ids...]
export GOFLAGS=-mod=mod GOPROXY=off GOSUMDB=off GOTOOLCHAIN=local
seed=${1:-7}; shift
ids=${@:-"C19 C20 C13 C14 C12 C11 C06 C09 C07 C01 C08 C02"}
export VERIF_DIR=$PWD
go1.26.8 build -o bin/ ./cmd/... || exit 2
for id in $ids; do
  t0=$(date +%s)
  VERIF_SEED=$seed bin/verif check $id --tier thorough > thorough-$id-$seed.log 2>&1; rc=$?
  echo "seed=$seed $id exit=$rc $(($(date +%s)-t0))s :: $(tail -1 thorough-$id-$seed.log | cut -c1-220)"
  grep -E "^violation class|^VIOLATION|infrastructure" thorough-$id-$seed.log | head -5
done
