#!/usr/bin/env python3
"""Re-bases every seeded patch onto /repo's current HEAD (3-way apply), so that the catalogue keeps applying after fix: commits.
Writes the result to /tmp/mut/<ID>/_out/<name>/ (the layout tools/verify_seeded.py reads); the original patch is kept as patch.orig.diff."""
import glob, json, os, shutil, subprocess, tempfile
ENV = dict(os.environ, GOFLAGS="-mod=mod", GOPROXY="off", GOSUMDB="off", GOTOOLCHAIN="local")
head = subprocess.check_output(["git", "-C", "/repo", "rev-parse", "--short", "HEAD"], text=True).strip()
for d in sorted(glob.glob("/verif/seeded/*/")):
    name = os.path.basename(d.rstrip("/"))
    if not os.path.exists(d + "patch.diff"): continue
    ID = name.split("-")[0]
    tmp = tempfile.mkdtemp(prefix="rb.")
    wt = tmp + "/r"
    try:
        subprocess.check_call(["git", "-C", "/repo", "worktree", "add", "--detach", wt, "HEAD"], stdout=subprocess.DEVNULL, stderr=subprocess.DEVNULL)
        src = d + ("patch.orig.diff" if os.path.exists(d + "patch.orig.diff") else "patch.diff")
        p = subprocess.run(["git", "-C", wt, "apply", "--3way", src], stdout=subprocess.PIPE, stderr=subprocess.STDOUT, text=True)
        if p.returncode != 0:
            print(name, "3-way apply FAILED:", p.stdout[-300:].replace("\n", " | ")); continue
        b = subprocess.run(["go", "build", "./..."], cwd=wt, env=ENV, stdout=subprocess.PIPE, stderr=subprocess.STDOUT, text=True)
        if b.returncode != 0:
            print(name, "does not build after rebase:", b.stdout[-300:].replace("\n", " | ")); continue
        new = subprocess.check_output(["git", "-C", wt, "diff", "HEAD"], text=True)
        out = "/tmp/mut/%s/_out/%s/" % (ID, name)
        os.makedirs(out, exist_ok=True)
        for f in os.listdir(d):
            shutil.copy(d + f, out + f)
        if not os.path.exists(out + "patch.orig.diff"):
            shutil.copy(d + "patch.diff", out + "patch.orig.diff")
        open(out + "patch.diff", "w").write(new)
        m = json.load(open(out + "meta.json"))
        m["rebased_onto"] = head
        json.dump(m, open(out + "meta.json", "w"), indent=1)
        same = open(d + "patch.diff").read() == new
        print(name, "ok", "(unchanged)" if same else "(rebased)")
    finally:
        subprocess.call(["git", "-C", "/repo", "worktree", "remove", "--force", wt], stdout=subprocess.DEVNULL, stderr=subprocess.DEVNULL)
        shutil.rmtree(tmp, ignore_errors=True)
