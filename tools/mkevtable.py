#!/usr/bin/env python3
"""Inserts a summary of the committed evidence files into DESIGN.md (between the EVIDENCE-TABLE markers)."""
import json, glob, os
rows = []
for f in sorted(glob.glob("/verif/evidence/C*.json")):
    d = json.load(open(f)); c = d["coverage"]
    faults = c.get("fault_kinds_fired", {})
    nf = sum(faults.values())
    top = ", ".join("%s %d" % (k, v) for k, v in sorted(faults.items(), key=lambda kv: -kv[1])[:3])
    rows.append("| %s | %s | %d | %d | %d | %.0f | %d | %d | %d | %d (%s) | %s |" % (
        d["property_id"], d["tier"], d["seed"], c.get("simulated_runs", 0), c["evaluations"], d["wall_s"], c.get("runs_per_hour", 0),
        c.get("distinct_interleavings", 0), c["distinct_nontrivial"], nf, top, ", ".join(c.get("probes_at_zero", [])) or "none"))
hdr = ("| id | tier | seed | runs | executions | wall s | runs/h | distinct interleavings / histories | distinct non-trivial | faults fired (top kinds) | probes at zero |\n"
       "|---|---|---|---|---|---|---|---|---|---|---|\n")
text = ("The evidence files committed with this revision (written by `bin/verif check <id> --tier thorough` in /verif against /repo; distinct counts stop at 20 million, see `distinct_counts_capped`):\n\n"
        + hdr + "\n".join(rows) + "\n")
p = "/verif/DESIGN.md"; s = open(p).read()
b, e = "<!-- EVIDENCE-TABLE -->", "<!-- EVIDENCE-TABLE-END -->"
i, j = s.index(b) + len(b), s.index(e)
open(p, "w").write(s[:i] + "\n" + text + s[j:])
print(len(rows), "rows")
