#!/bin/bash
# After the night pass: re-run the thorough tier of the properties whose check or whose library code changed during it
# (writes their final evidence), then the sensitivity runs of the newest seeded changes, then extra thorough seeds (no evidence).
export GOFLAGS=-mod=mod GOPROXY=off GOSUMDB=off GOTOOLCHAIN=local
cd /verif
go1.26.8 build -o bin/ ./cmd/... || exit 2
for id in C09 C07 C06 C11 C20; do
  t0=$(date +%s)
  VERIF_SEED=20261004 bin/verif check $id --tier thorough > /tmp/post-$id.log 2>&1; rc=$?
  echo "evidence $id exit=$rc $(($(date +%s)-t0))s :: $(tail -1 /tmp/post-$id.log | cut -c1-200)"
  grep -E "^violation class|^VIOLATION|infrastructure" /tmp/post-$id.log | cut -c1-300 | head -5
done
python3 tools/sens.py --only C01-7 C01-8 C01-9 C06-7 C06-8 C06-9 C08-7 C08-8 C08-9 C09-7 C09-8 C09-9 2>&1 | cut -c1-200
python3 tools/sens.py --props C08 --only C01-7 C01-8 2>&1 | cut -c1-200
for s in 5 6; do for id in C09 C07; do
  t0=$(date +%s)
  VERIF_NOEVIDENCE=1 VERIF_SEED=$s bin/verif check $id --tier thorough > /tmp/post-$id-$s.log 2>&1; rc=$?
  echo "extra seed=$s $id exit=$rc $(($(date +%s)-t0))s :: $(tail -1 /tmp/post-$id-$s.log | cut -c1-200)"
  grep -E "^violation class|^VIOLATION|infrastructure" /tmp/post-$id-$s.log | cut -c1-300 | head -5
done; done
echo "== post done $(date)"
