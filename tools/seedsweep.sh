#!/bin/bash
# Runs every claimed check's quick (or $TIER) command for a list of seeds and prints one line per (seed, property).
# usage: tools/seedsweep.sh "<seeds>" [tier] [ids...]   (evidence files are not rewritten)
export GOFLAGS=-mod=mod GOPROXY=off GOSUMDB=off GOTOOLCHAIN=local VERIF_NOEVIDENCE=1
seeds=${1:-"1 2 3"}; tier=${2:-quick}; shift; shift
ids=${@:-$(python3 -c "import json;print(' '.join(c['property_id'] for c in json.load(open('/verif/MANIFEST.json'))['checks']))")}
cd /verif
for s in $seeds; do for id in $ids; do
  t0=$(date +%s)
  out=$(VERIF_SEED=$s bin/verif check $id --tier $tier 2>&1); rc=$?
  echo "seed=$s $id exit=$rc $(($(date +%s)-t0))s $(echo "$out" | grep -c '^VIOLATION') violations :: $(echo "$out" | tail -1 | cut -c1-160)"
  if [ $rc -ne 0 ]; then echo "$out" | grep -E "^violation class|^VIOLATION|infrastructure" | head -5; fi
done; done
