#!/usr/bin/env python3
"""Sensitivity run: apply every seeded change under /verif/seeded/<name>/patch.diff to a scratch copy of /repo
and run the owning property's check against that copy (VERIF_REPO). Expect exit 1 (VIOLATION).
usage: tools/sens.py [--tier quick] [--only NAME...] [--all-props] [--runs N]
Results are appended to seeded/RESULTS.json (one record per (change, property))."""
import json, os, subprocess, sys, shutil, tempfile, time, glob, re

args = sys.argv[1:]
tier = "quick"
only = []
allprops = False
forced = None
runs = None
i = 0
while i < len(args):
    a = args[i]
    if a == "--tier": tier = args[i+1]; i += 2
    elif a == "--runs": runs = args[i+1]; i += 2
    elif a == "--all-props": allprops = True; i += 1
    elif a == "--props": forced = args[i+1].split(","); i += 2
    elif a == "--only": only = args[i+1:]; break
    else: i += 1
claimed = [c["property_id"] for c in json.load(open("/verif/MANIFEST.json"))["checks"]]
res_path = "/verif/seeded/RESULTS.json"
results = json.load(open(res_path)) if os.path.exists(res_path) else {}
for d in sorted(glob.glob("/verif/seeded/*/") + glob.glob("/verif/mutants/*/")):
    name = os.path.basename(d.rstrip("/"))
    if only and name not in only: continue
    patch = os.path.join(d, "patch.diff")
    if not os.path.exists(patch): continue
    meta = json.load(open(os.path.join(d, "meta.json")))
    props = forced if forced else (claimed if allprops else [meta["property"]])
    tmp = tempfile.mkdtemp(prefix="sens.")
    try:
        subprocess.check_call(["git", "-C", "/repo", "worktree", "add", "--detach", tmp + "/r", "HEAD"], stdout=subprocess.DEVNULL, stderr=subprocess.DEVNULL)
        ap = subprocess.run(["git", "-C", tmp + "/r", "apply", "--3way", patch], stdout=subprocess.PIPE, stderr=subprocess.STDOUT, text=True)
        if ap.returncode != 0:
            print(name, "PATCH DOES NOT APPLY to /repo HEAD (run tools/rebase_seeded.py):", ap.stdout[-200:].replace("\n", " | "), flush=True)
            continue
        for p in props:
            env = dict(os.environ, VERIF_REPO=tmp + "/r", GOFLAGS="-mod=mod", GOPROXY="off", GOSUMDB="off", GOTOOLCHAIN="local", VERIF_DIR="/verif", VERIF_NOEVIDENCE="1", VERIF_NOSHRINK=os.environ.get("SENS_SHRINK", "") == "" and "1" or "")
            cmd = ["/verif/bin/verif", "check", p, "--tier", tier]
            if runs: cmd += ["--runs", runs]
            t0 = time.time()
            pr = subprocess.run(cmd, env=env, stdout=subprocess.PIPE, stderr=subprocess.STDOUT, text=True)
            classes = sorted(set(re.findall(r"violation class=(\S+)", pr.stdout)))
            rec = {"exit": pr.returncode, "classes": classes, "wall_s": round(time.time()-t0, 1), "tier": tier}
            if pr.returncode == 2:
                rec["infra"] = pr.stdout[-1500:]
            results.setdefault(name, {})[p] = rec
            print(name, p, "exit", pr.returncode, classes[:4], rec["wall_s"], flush=True)
            json.dump(results, open(res_path, "w"), indent=1, sort_keys=True)
    finally:
        subprocess.call(["git", "-C", "/repo", "worktree", "remove", "--force", tmp + "/r"], stdout=subprocess.DEVNULL, stderr=subprocess.DEVNULL)
        shutil.rmtree(tmp, ignore_errors=True)
