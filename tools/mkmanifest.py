#!/usr/bin/env python3
"""Regenerates /verif/MANIFEST.json from the table below (kept as a script so the manifest stays valid and consistent)."""
import json, sys

TECH = "deterministic simulation with fault injection"
na = {
 "C03":"pure function of the document bytes (synchronous decoders over encoding/xml); no schedule, clock, fault or interleaving for a simulator to own (stopping the XML scanner is simulated under C07) - DESIGN.md section 5",
 "C04":"marshal/unmarshal of a value; no concurrency, I/O fault, clock or iteration-order dependence - DESIGN.md section 5",
 "C05":"function of the value and one codec setting; the only unordered step (tag order on decode) is excluded by the statement - DESIGN.md section 5",
 "C10":"integer and string arithmetic on packed ids; nothing to schedule or fault - DESIGN.md section 5",
 "C15":"function of (element, update list, t); no nondeterminism source - DESIGN.md section 5",
 "C16":"deterministic geometry over slices; no map iteration, goroutine or clock in osmgeojson/mputil - DESIGN.md section 5",
 "C17":"same packages as C16; equal input gives equal output has no nondeterminism source to vary - DESIGN.md section 5",
 "C18":"table lookup over tags - DESIGN.md section 5",
}
pbf_note = "trusts the independent PBF writer/model in h/pbfwire, the simulator (simrt + testing/synctest; `bin/verif selftest determinism`) and the source instrumenter (`bin/verif selftest fidelity`); czlib (cgo) runs natively; schedules and inputs are sampled"
checks = {
 "C01": ("pbfsim","exploration","generated PBF files (every optional part toggled, period = decoder count) are scanned by the real pipeline under seeded schedules, decoder counts 1..32 and reader fragmentations and compared field by field with the model the file was written from; sampled, not exhaustive","seeded simulation of the decoding pipeline over model-generated files (schedule x decoder count x reader chunking), model oracle"),
 "C02": ("pbfsim","exploration","the goroutine interleaving of reader, N decoders, serializer and consumer is decided by the simulator (seeded per-goroutine delays on a fake clock, seeded select choice); each execution is compared with a 1-decoder scan of the same bytes, retained objects are re-read after the scan, and the race detector watches every execution","seeded schedule search (discrete-event delays on testing/synctest's fake clock) with the race detector, relative oracle against a 1-decoder run"),
 "C06": ("pbfsim","fault_enumeration","for each generated PBF file every cut offset (thorough) and every damage class x block position is injected through the simulated reader, at 1/2/3/11 decoders under seeded schedules, and the delivered prefix, the error and the absence of crash/hang are checked against the file's model; files and schedules are sampled","fault injection through a simulated reader (EOF / I/O error at every offset, damaged blocks), enumerated per file, under seeded schedules"),
 "C07": ("pbfsim","exploration","API call histories with Close / cancel at every position, cancel issued by a second goroutine at a drawn simulated instant, on PBF (1..16 decoders) and XML scanners, are executed under seeded schedules; the recorded history is checked against a sequential scanner model, the reader's byte log against a promptness bound, the goroutine registry for leaks, and the race detector watches every execution","seeded schedule + stop-point search over recorded call histories, sequential-model oracle, byte-log promptness bound, goroutine registry, race detector"),
 "C08": ("pbfsim","exploration","skip masks x deterministic predicate families x decoder counts x seeded schedules; output must be the filtered reference scan, unchanged, and objects must not change after delivery","seeded simulation with filter callbacks as delay points; filtered-reference oracle and delivery/after snapshots"),
 "C09": ("pbfsim","exploration","crash/restart: the consumer is stopped after k objects, the reported offset is persisted and a fresh scanner (independent decoder count and schedule) resumes at data[offset:]; offsets are checked against the file's block table","crash/restart simulation of the consumer with only the reported offset surviving; block-table oracle"),
}
pending = {
 "C11":"annosim engine under construction in this session; not claimed until its quick command runs clean on the tree",
 "C12":"annosim engine under construction in this session; not claimed until its quick command runs clean on the tree",
 "C13":"annosim engine under construction in this session; not claimed until its quick command runs clean on the tree",
 "C14":"annosim engine under construction in this session; not claimed until its quick command runs clean on the tree",
 "C19":"netsim engine under construction in this session; not claimed until its quick command runs clean on the tree",
 "C20":"netsim engine under construction in this session; not claimed until its quick command runs clean on the tree",
}
extra = {}
try:
    extra = json.load(open("/verif/tools/manifest_extra.json"))
except Exception:
    pass
for k,v in extra.get("checks",{}).items():
    checks[k] = tuple(v)
    pending.pop(k, None)
notes = {"pbfsim": pbf_note,
 "annosim": "trusts the event-sourced reference model of the simulated OSM database in h/annosim, the simulator and the instrumenter; histories, map orders and interleavings are sampled",
 "netsim": "trusts the simulated servers (tables written from the planet.osm.org layout / API v0.6 documentation) in h/netsim; scenario space is sampled except the stated exhaustive small scopes"}
m = {
 "version":1,
 "setup_cmd":"cd /verif && GOFLAGS=-mod=mod GOPROXY=off GOSUMDB=off GOTOOLCHAIN=local go1.26.8 build -o bin/ ./cmd/...",
 "hooks":{"guard":"none: no hooks are committed to /repo; every check copies /repo's working tree to a temp dir and rewrites the copy with cmd/siminstr","enable":"bin/verif check <id> copies /repo, runs bin/siminstr (go/select/channel-op/map-range -> simrt), builds the engine's test binary with go1.26.8 (-race for pbfsim) against the copy","baseline_off_cmd":"cd /repo && go test -vet=off -count=1 -timeout 25m ./...","source_commits":[],"add_only":True},
 "engines":[
  {"name":"pbfsim","path":"h/pbfsim","serves_properties":["C01","C02","C06","C07","C08","C09"],"kind_free_text":"deterministic simulation (testing/synctest fake clock, seeded per-goroutine delays, simulated reader/consumer/canceller, fault injection) of the instrumented osmpbf/osmxml scanners, race detector on"},
  {"name":"annosim","path":"h/annosim","serves_properties":["C11","C12","C13","C14"],"kind_free_text":"simulated OSM database + faulty datasource; seeded map iteration order; simulated producer/consumer interleavings for ChildFirstOrdering"},
  {"name":"netsim","path":"h/netsim","serves_properties":["C19","C20"],"kind_free_text":"in-process simulated planet/API servers as http.RoundTripper, rate limiter on the simulated clock"}
 ],
 "checks":[],
 "not_applicable":[{"property_id":k,"reason":v} for k,v in sorted({**na,**pending}.items())],
 "notes":"See DESIGN.md. Exit codes: 0 held, 1 violation (VIOLATION line + replay file under replays/), 2 infrastructure trouble (never a violation). Known findings: known_findings.json."
}
for pid in sorted(checks):
    eng, level, text, tech = checks[pid]
    m["checks"].append({"property_id":pid,"quick_cmd":"bin/verif check %s --tier quick"%pid,"thorough_cmd":"bin/verif check %s --tier thorough"%pid,
      "evidence_file":"evidence/%s.json"%pid,"replay_cmd_template":"bin/verif replay {path}","engine":eng,
      "level_claimed":{"category":level,"text":text,"design_ref":"DESIGN.md section 4 (%s)"%pid},
      "level_note":notes[eng],"technique":TECH+": "+tech})
json.dump(m, open("/verif/MANIFEST.json","w"), indent=1)
print("claimed:", [c["property_id"] for c in m["checks"]], "n/a:", [x["property_id"] for x in m["not_applicable"]])
