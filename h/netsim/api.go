package netsim

import (
	"context"
	"errors"
	"fmt"
	"net/http"
	"strconv"
	"strings"
	"time"

	"github.com/paulmach/osm"
)

// ---------------------------------------------------------------- element model and its XML
//
// The model of a response is a list of expected Go values; the body is written from them by
// the hand-written encoder below (attribute and element names as the API v0.6 documentation
// shows them), never by the library's own marshalling code. What a call returned is compared
// with the model through the sig* functions, which only format fields.

func xmlEsc(s string) string {
	var sb strings.Builder
	for _, r := range s {
		switch r {
		case '&':
			sb.WriteString("&amp;")
		case '<':
			sb.WriteString("&lt;")
		case '>':
			sb.WriteString("&gt;")
		case '"':
			sb.WriteString("&quot;")
		case '\'':
			sb.WriteString("&apos;")
		case '\n':
			sb.WriteString("&#10;")
		case '\t':
			sb.WriteString("&#9;")
		default:
			sb.WriteRune(r)
		}
	}
	return sb.String()
}

const apiTime = "2006-01-02T15:04:05Z"
const noteTime = "2006-01-02 15:04:05 MST"

func coord(f float64) string { return strconv.FormatFloat(f, 'f', 7, 64) }

func tagsXML(sb *strings.Builder, ts osm.Tags) {
	for _, t := range ts {
		fmt.Fprintf(sb, `<tag k="%s" v="%s"/>`, xmlEsc(t.Key), xmlEsc(t.Value))
	}
}

func metaXML(sb *strings.Builder, id int64, vis bool, ver int, cs osm.ChangesetID, ts time.Time, user string, uid osm.UserID) {
	fmt.Fprintf(sb, ` id="%d" visible="%v" version="%d" changeset="%d" timestamp="%s" user="%s" uid="%d"`, id, vis, ver, cs, ts.Format(apiTime), xmlEsc(user), uid)
}

func elemXML(sb *strings.Builder, e interface{}) {
	switch x := e.(type) {
	case *osm.Node:
		sb.WriteString("<node")
		metaXML(sb, int64(x.ID), x.Visible, x.Version, x.ChangesetID, x.Timestamp, x.User, x.UserID)
		if x.Visible {
			fmt.Fprintf(sb, ` lat="%s" lon="%s"`, coord(x.Lat), coord(x.Lon))
		}
		if len(x.Tags) == 0 {
			sb.WriteString("/>")
		} else {
			sb.WriteString(">")
			tagsXML(sb, x.Tags)
			sb.WriteString("</node>")
		}
	case *osm.Way:
		sb.WriteString("<way")
		metaXML(sb, int64(x.ID), x.Visible, x.Version, x.ChangesetID, x.Timestamp, x.User, x.UserID)
		sb.WriteString(">")
		for _, n := range x.Nodes {
			fmt.Fprintf(sb, `<nd ref="%d"/>`, n.ID)
		}
		tagsXML(sb, x.Tags)
		sb.WriteString("</way>")
	case *osm.Relation:
		sb.WriteString("<relation")
		metaXML(sb, int64(x.ID), x.Visible, x.Version, x.ChangesetID, x.Timestamp, x.User, x.UserID)
		sb.WriteString(">")
		for _, m := range x.Members {
			fmt.Fprintf(sb, `<member type="%s" ref="%d" role="%s"/>`, m.Type, m.Ref, xmlEsc(m.Role))
		}
		tagsXML(sb, x.Tags)
		sb.WriteString("</relation>")
	case *osm.Changeset:
		fmt.Fprintf(sb, `<changeset id="%d" created_at="%s"`, x.ID, x.CreatedAt.Format(apiTime))
		if !x.Open {
			fmt.Fprintf(sb, ` closed_at="%s"`, x.ClosedAt.Format(apiTime))
		}
		fmt.Fprintf(sb, ` open="%v" user="%s" uid="%d" min_lat="%s" min_lon="%s" max_lat="%s" max_lon="%s" comments_count="%d" changes_count="7">`,
			x.Open, xmlEsc(x.User), x.UserID, coord(x.MinLat), coord(x.MinLon), coord(x.MaxLat), coord(x.MaxLon), x.CommentsCount)
		tagsXML(sb, x.Tags)
		if x.Discussion != nil {
			sb.WriteString("<discussion>")
			for _, c := range x.Discussion.Comments {
				fmt.Fprintf(sb, `<comment date="%s" uid="%d" user="%s"><text>%s</text></comment>`, c.Timestamp.Format(apiTime), c.UserID, xmlEsc(c.User), xmlEsc(c.Text))
			}
			sb.WriteString("</discussion>")
		}
		sb.WriteString("</changeset>")
	case *osm.Note:
		fmt.Fprintf(sb, `<note lon="%s" lat="%s"><id>%d</id><url>%s</url><comment_url>%s/comment</comment_url><close_url>%s/close</close_url><date_created>%s</date_created><status>%s</status><comments>`,
			coord(x.Lon), coord(x.Lat), x.ID, xmlEsc(x.URL), xmlEsc(x.URL), xmlEsc(x.URL), x.DateCreated.Format(noteTime), x.Status)
		for _, c := range x.Comments {
			fmt.Fprintf(sb, `<comment><date>%s</date><uid>%d</uid><user>%s</user><user_url>https://api.sim.test/user/%d</user_url><action>%s</action><text>%s</text><html>%s</html></comment>`,
				c.Date.Format(noteTime), c.UserID, xmlEsc(c.User), c.UserID, c.Action, xmlEsc(c.Text), xmlEsc("<p>"+c.Text+"</p>"))
		}
		sb.WriteString("</comments></note>")
	case *osm.User:
		fmt.Fprintf(sb, `<user id="%d" display_name="%s" account_created="%s"><description>%s</description><contributor-terms agreed="true"/><roles></roles><changesets count="%d"/><traces count="%d"/><blocks><received count="0" active="0"/></blocks></user>`,
			x.ID, xmlEsc(x.Name), x.CreatedAt.Format(apiTime), xmlEsc(x.Description), x.Changesets.Count, x.Traces.Count)
	default:
		panic(fmt.Sprintf("elemXML: %T", e))
	}
}

func sigTags(ts osm.Tags) string {
	var sb strings.Builder
	for _, t := range ts {
		fmt.Fprintf(&sb, "%q=%q,", t.Key, t.Value)
	}
	return sb.String()
}

// sig formats the fields of a returned (or expected) element that the simulated server wrote.
func sig(e interface{}) string {
	switch x := e.(type) {
	case *osm.Node:
		if x == nil {
			return "node <nil>"
		}
		return fmt.Sprintf("node %d v%d cs%d %q/%d vis=%v %d %.7f,%.7f [%s]", x.ID, x.Version, x.ChangesetID, x.User, x.UserID, x.Visible, x.Timestamp.Unix(), x.Lat, x.Lon, sigTags(x.Tags))
	case *osm.Way:
		if x == nil {
			return "way <nil>"
		}
		var nd []string
		for _, n := range x.Nodes {
			nd = append(nd, strconv.FormatInt(int64(n.ID), 10))
		}
		return fmt.Sprintf("way %d v%d cs%d %q/%d vis=%v %d nd=%s [%s]", x.ID, x.Version, x.ChangesetID, x.User, x.UserID, x.Visible, x.Timestamp.Unix(), strings.Join(nd, ","), sigTags(x.Tags))
	case *osm.Relation:
		if x == nil {
			return "relation <nil>"
		}
		var ms []string
		for _, m := range x.Members {
			ms = append(ms, fmt.Sprintf("%s/%d/%q", m.Type, m.Ref, m.Role))
		}
		return fmt.Sprintf("relation %d v%d cs%d %q/%d vis=%v %d m=%s [%s]", x.ID, x.Version, x.ChangesetID, x.User, x.UserID, x.Visible, x.Timestamp.Unix(), strings.Join(ms, ","), sigTags(x.Tags))
	case *osm.Changeset:
		if x == nil {
			return "changeset <nil>"
		}
		disc := "-"
		if x.Discussion != nil {
			disc = ""
			for _, c := range x.Discussion.Comments {
				disc += fmt.Sprintf("(%d %q %d %q)", c.UserID, c.User, c.Timestamp.Unix(), c.Text)
			}
		}
		closed := int64(0)
		if !x.Open {
			closed = x.ClosedAt.Unix()
		}
		return fmt.Sprintf("changeset %d %q/%d open=%v %d..%d box=%.7f,%.7f,%.7f,%.7f comments=%d disc=%s [%s]", x.ID, x.User, x.UserID, x.Open, x.CreatedAt.Unix(), closed, x.MinLon, x.MinLat, x.MaxLon, x.MaxLat, x.CommentsCount, disc, sigTags(x.Tags))
	case *osm.Note:
		if x == nil {
			return "note <nil>"
		}
		cs := ""
		for _, c := range x.Comments {
			cs += fmt.Sprintf("(%d %q %s %d %q)", c.UserID, c.User, c.Action, c.Date.Unix(), c.Text)
		}
		return fmt.Sprintf("note %d %.7f,%.7f %s %d %q %s", x.ID, x.Lon, x.Lat, x.Status, x.DateCreated.Unix(), x.URL, cs)
	case *osm.User:
		if x == nil {
			return "user <nil>"
		}
		return fmt.Sprintf("user %d %q %q %d cs=%d tr=%d", x.ID, x.Name, x.Description, x.CreatedAt.Unix(), x.Changesets.Count, x.Traces.Count)
	}
	return fmt.Sprintf("?%T", e)
}

// sigOSM lists everything an *osm.OSM carries, kind by kind.
func sigOSM(prefix string, o *osm.OSM) []string {
	if o == nil {
		return nil
	}
	var out []string
	for _, x := range o.Nodes {
		out = append(out, prefix+sig(x))
	}
	for _, x := range o.Ways {
		out = append(out, prefix+sig(x))
	}
	for _, x := range o.Relations {
		out = append(out, prefix+sig(x))
	}
	for _, x := range o.Changesets {
		out = append(out, prefix+sig(x))
	}
	for _, x := range o.Notes {
		out = append(out, prefix+sig(x))
	}
	for _, x := range o.Users {
		out = append(out, prefix+sig(x))
	}
	return out
}

var strPool = []string{"", "a", "highway", "residential", "name", "Straße des 17. Juni", `q"uo<te>&amp;`, "日本語", "x y", "it's", "a=b&c=d", "tab\there"}

type gen struct{ s uint64 }

func (g *gen) n(k int) int {
	g.s = g.s*6364136223846793005 + 1442695040888963407
	return int((g.s >> 33) % uint64(k))
}
func (g *gen) str() string { return strPool[g.n(len(strPool))] }
func (g *gen) tags() osm.Tags {
	var ts osm.Tags
	for i, n := 0, g.n(4); i < n; i++ {
		ts = append(ts, osm.Tag{Key: fmt.Sprintf("k%d%s", i, g.str()), Value: g.str()})
	}
	return ts
}
func (g *gen) time() time.Time     { return time.Unix(1100000000+int64(g.n(600000000)), 0).UTC() }
func (g *gen) coord(r int) float64 { return float64(g.n(2*r*10000000)-r*10000000) / 1e7 }

// makeElem builds the i-th element of a kind; salt comes from the run's tape.
func makeElem(kind string, salt uint64, i int) interface{} {
	g := &gen{s: salt*1000003 + uint64(i)*7919 + uint64(len(kind))}
	g.n(2)
	id := int64(1 + g.n(1<<30))
	if g.n(4) == 0 {
		id = int64(1)<<40 + int64(g.n(1<<30))
	}
	ver, cs, uid := 1+g.n(50), osm.ChangesetID(1+g.n(1<<27)), osm.UserID(1+g.n(1<<23))
	vis := g.n(8) != 0
	switch kind {
	case "node":
		n := &osm.Node{ID: osm.NodeID(id), Version: ver, ChangesetID: cs, UserID: uid, User: g.str(), Visible: vis, Timestamp: g.time(), Tags: g.tags()}
		if vis {
			n.Lat, n.Lon = g.coord(90), g.coord(180)
		}
		return n
	case "way":
		w := &osm.Way{ID: osm.WayID(id), Version: ver, ChangesetID: cs, UserID: uid, User: g.str(), Visible: vis, Timestamp: g.time(), Tags: g.tags()}
		for k, n := 0, g.n(5); k < n; k++ {
			w.Nodes = append(w.Nodes, osm.WayNode{ID: osm.NodeID(1 + g.n(1<<30))})
		}
		return w
	case "relation":
		r := &osm.Relation{ID: osm.RelationID(id), Version: ver, ChangesetID: cs, UserID: uid, User: g.str(), Visible: vis, Timestamp: g.time(), Tags: g.tags()}
		for k, n := 0, g.n(4); k < n; k++ {
			r.Members = append(r.Members, osm.Member{Type: []osm.Type{osm.TypeNode, osm.TypeWay, osm.TypeRelation}[g.n(3)], Ref: int64(1 + g.n(1<<30)), Role: g.str()})
		}
		return r
	case "changeset":
		c := &osm.Changeset{ID: osm.ChangesetID(id), UserID: uid, User: g.str(), CreatedAt: g.time(), Open: g.n(4) == 0, Tags: g.tags(), CommentsCount: g.n(3)}
		c.ClosedAt = c.CreatedAt.Add(time.Duration(1+g.n(3600)) * time.Second)
		c.MinLat, c.MinLon = g.coord(80), g.coord(170)
		c.MaxLat, c.MaxLon = c.MinLat+float64(g.n(100000))/1e7, c.MinLon+float64(g.n(100000))/1e7
		if g.n(2) == 0 {
			c.Discussion = &osm.ChangesetDiscussion{}
			for k, n := 0, g.n(3); k < n; k++ {
				c.Discussion.Comments = append(c.Discussion.Comments, &osm.ChangesetComment{User: g.str(), UserID: osm.UserID(1 + g.n(1000)), Timestamp: g.time(), Text: g.str()})
			}
		}
		return c
	case "note":
		n := &osm.Note{ID: osm.NoteID(id), Lat: g.coord(90), Lon: g.coord(180), URL: fmt.Sprintf("https://api.sim.test/api/0.6/notes/%d", id), DateCreated: osm.Date{Time: g.time()}, Status: []osm.NoteStatus{"open", "closed"}[g.n(2)]}
		for k, m := 0, g.n(3); k < m; k++ {
			n.Comments = append(n.Comments, &osm.NoteComment{Date: osm.Date{Time: g.time()}, UserID: osm.UserID(1 + g.n(1000)), User: g.str(), Action: []osm.NoteCommentAction{"opened", "commented", "closed"}[g.n(3)], Text: g.str()})
		}
		return n
	case "user":
		u := &osm.User{ID: osm.UserID(id), Name: g.str(), Description: g.str(), CreatedAt: g.time()}
		u.Changesets.Count = g.n(100000)
		u.Traces.Count = g.n(100)
		return u
	}
	panic("makeElem: " + kind)
}

// ---------------------------------------------------------------- the API server as a transport

type ctxKey struct{}

type apiReq struct {
	method string
	url    string
	path   string // escaped path
	rawq   string
	scheme string
	host   string
	t      int64 // fake (or real, outside a bubble: unused) clock at arrival
	seq    int
	ctxOK  bool
}

type apiServer struct {
	status  int
	body    string
	headers [][2]string // further response headers of the first answer
	// answer to every request after the first (0: the same answer again). Used with Retry-After: the
	// throttle is over by then, so a client that re-sends on its own gets data
	nextStatus int
	nextBody   string
	reqs       []apiReq
	clock      *int // event counter shared with the limiter
}

func (s *apiServer) RoundTrip(r *http.Request) (*http.Response, error) {
	*s.clock++
	if len(s.reqs) > 64 {
		return nil, errors.New("simulated API: too many requests")
	}
	s.reqs = append(s.reqs, apiReq{method: r.Method, url: r.URL.String(), path: r.URL.EscapedPath(), rawq: r.URL.RawQuery, scheme: r.URL.Scheme, host: r.URL.Host,
		t: time.Now().UnixNano(), seq: *s.clock, ctxOK: r.Context().Value(ctxKey{}) != nil})
	status, body, first := s.status, s.body, len(s.reqs) == 1
	if !first && s.nextStatus != 0 {
		status, body = s.nextStatus, s.nextBody
	}
	ct := "application/xml; charset=utf-8"
	if status != 200 && !strings.HasPrefix(body, "<") {
		ct = "text/plain"
	}
	rs := resp(r, status, body)
	rs.Header.Set("Content-Type", ct)
	if first {
		for _, h := range s.headers {
			rs.Header.Set(h[0], h[1])
		}
	}
	return rs, nil
}

// ---------------------------------------------------------------- the rate limiter

const (
	limNone = iota
	limGrant
	limFail
	limCancel
)

var limName = []string{"no-limiter", "limiter-grants-after-delay", "limiter-fails", "context-cancelled-while-waiting"}

var errLimiter = errors.New("simulated limiter: refused")

type simLimiter struct {
	mode     int
	d        time.Duration
	calls    int
	start    int64
	end      int64
	endSeq   int
	ctxOK    bool
	clock    *int
	returned error
}

func (l *simLimiter) Wait(ctx context.Context) (err error) {
	l.calls++
	l.start = time.Now().UnixNano()
	l.ctxOK = ctx.Value(ctxKey{}) != nil
	defer func() {
		*l.clock++
		l.endSeq = *l.clock
		l.end = time.Now().UnixNano()
		l.returned = err
	}()
	if l.calls > 8 {
		return errLimiter
	}
	switch l.mode {
	case limGrant:
		tm := time.NewTimer(l.d)
		defer tm.Stop()
		select {
		case <-tm.C:
			return nil
		case <-ctx.Done():
			return ctx.Err()
		}
	case limFail:
		if l.d > 0 {
			time.Sleep(l.d)
		}
		return errLimiter
	case limCancel:
		// the limiter would grant only after a long time; the caller's context is cancelled first
		tm := time.NewTimer(l.d)
		defer tm.Stop()
		select {
		case <-tm.C:
			return nil
		case <-ctx.Done():
			return ctx.Err()
		}
	}
	return nil
}
