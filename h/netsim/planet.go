// Package netsim is engine C: the replication and osmapi packages run against simulated
// servers. A server is an in-process http.RoundTripper (no listener, no socket); the rate
// limiter and the clock of C20 live on testing/synctest's fake clock (h/simu).
package netsim

import (
	"errors"
	"io"
	"net/http"
	"net/url"
	"strconv"
	"strings"
	"time"

	"h/kit"
)

// ---------------------------------------------------------------- simulated planet directory

// The layout below is written from the conventions of planet.osm.org, not from the library:
//
//	<base>/replication/minute/state.txt                 newest state of the minutely diffs
//	<base>/replication/minute/AAA/BBB/CCC.state.txt     state of sequence AAABBBCCC (zero padded, three levels)
//	<base>/replication/hour/...  <base>/replication/day/...  likewise
//	<base>/replication/changesets/state.yaml            newest changeset state (YAML)
//	<base>/replication/changesets/AAA/BBB/CCC.state.txt state of one changeset file (YAML as well)
//
// Interval state files are Java property files written by osmosis: a '#' comment with the
// date, then key=value lines in no particular order; ':' in values is escaped as '\:'.
// Changeset state files are a YAML document written by replicate_changesets.rb:
//
//	---
//	last_run: 2016-07-02 22:46:01.422137422 +00:00        (older files: "... Z")
//	sequence: 1912325
//
// The number in a changeset state file is one less than the name of the data file it was
// written with (from file 2008004 on), and state.yaml is a copy of the newest one; the first
// changeset state file that exists is 2007990.

const (
	kMinute = iota
	kHour
	kDay
	kChangeset
)

var kindName = []string{"minute", "hour", "day", "changeset"}
var kindDir = []string{"minute", "hour", "day", "changesets"}

const changesetFirst = 2007990    // first changeset sequence with a state file
const changesetOffByOne = 2008004 // from this file on, the number inside is name-1

const defaultPlanet = "https://planet.osm.org"

type pause struct {
	at  uint64 // every sequence >= at is shifted
	add int64  // by this many seconds
}

// planetDir is one simulated replication directory.
type planetDir struct {
	kind     int
	first    uint64 // lowest sequence the directory ever had (1, or 2007990 for changesets)
	max      uint64 // newest sequence; always available
	missing  map[uint64]bool
	t0       int64 // unix seconds of the (virtual) state first-1
	step     int64 // seconds between consecutive sequences, >= 2
	jitSeed  uint64
	jitter   bool // per-sequence offset in [0, step) seconds
	pauses   []pause
	nanos    bool   // changesets: sub-second part, a function of the sequence
	style    int    // rendering variant of the state file
	big      int    // interval kinds: > 0 = a large state file, this many transaction ids in each txn list
	base     string // Datasource.BaseURL ("" = package default)
	reqBase  *url.URL
	basePath string
}

func (d *planetDir) avail(seq uint64) bool {
	return seq >= d.first && seq <= d.max && !d.missing[seq]
}

// ts is the timestamp of sequence seq; strictly increasing in seq (defined for missing files
// too: a missing file is a state that was written and later lost).
func (d *planetDir) ts(seq uint64) time.Time {
	sec := d.t0 + int64(seq-d.first+1)*d.step
	if d.jitter {
		sec += int64(kit.Mix(d.jitSeed^seq) % uint64(d.step))
	}
	for _, p := range d.pauses {
		if seq >= p.at {
			sec += p.add
		}
	}
	var ns int64
	if d.nanos {
		ns = int64(kit.Mix(d.jitSeed+seq*7) % 1000000000)
		if seq%5 == 0 {
			ns = 0
		}
	}
	return time.Unix(sec, ns).UTC()
}

// firstAtOrAfter is the oracle: the first available state with timestamp >= t, or the
// newest when t is later than all of them. It also returns the first available sequence.
func (d *planetDir) firstAtOrAfter(t time.Time) (want uint64, firstAvail uint64) {
	firstAvail = d.first
	for d.missing[firstAvail] {
		firstAvail++
	}
	if t.After(d.ts(d.max)) {
		return d.max, firstAvail
	}
	lo, hi := d.first, d.max // invariant: ts(hi) >= t
	for lo < hi {
		mid := lo + (hi-lo)/2
		if d.ts(mid).Before(t) {
			lo = mid + 1
		} else {
			hi = mid
		}
	}
	for d.missing[lo] {
		lo++
	}
	return lo, firstAvail
}

func pad3(b []byte, n uint64) []byte {
	s := strconv.FormatUint(n, 10)
	for i := len(s); i < 3; i++ {
		b = append(b, '0')
	}
	return append(b, s...)
}

// seqPath is the planet's path of a sequence-numbered file below the kind's directory.
func seqPath(seq uint64) string {
	b := make([]byte, 0, 16)
	b = pad3(b, seq/1000000)
	b = append(b, '/')
	b = pad3(b, seq/1000%1000)
	b = append(b, '/')
	b = pad3(b, seq%1000)
	return string(b)
}

// parseSeqPath is the inverse, written separately: three components, the last two exactly
// three digits, the first at least three digits without superfluous zeros.
func parseSeqPath(p string) (uint64, bool) {
	parts := strings.Split(p, "/")
	if len(parts) != 3 {
		return 0, false
	}
	var v [3]uint64
	for i, s := range parts {
		if len(s) < 3 || (i > 0 && len(s) != 3) || (len(s) > 3 && s[0] == '0') || len(s) > 14 {
			return 0, false
		}
		for _, c := range s {
			if c < '0' || c > '9' {
				return 0, false
			}
			v[i] = v[i]*10 + uint64(c-'0')
		}
	}
	return v[0]*1000000 + v[1]*1000 + v[2], true
}

var javaDate = "Mon Jan 02 15:04:05 UTC 2006"

// render returns the body of the state file of seq (cur: the newest-state file).
func (d *planetDir) render(seq uint64, cur bool) (body string, txnMax, txnQ int) {
	t := d.ts(seq)
	if d.kind == kChangeset {
		inside := seq
		if cur || seq >= changesetOffByOne {
			inside = seq - 1
		}
		zone := " +00:00"
		if d.style&1 == 1 {
			zone = " Z"
		}
		head := "---\n"
		if d.style&2 == 2 {
			head = "--- \n" // older Ruby YAML emitters leave a space after the document marker
		}
		frac := strconv.Itoa(1000000000 + t.Nanosecond())[1:] // Ruby's %9N: always nine digits
		body = head + "last_run: " + t.Format("2006-01-02 15:04:05") + "." + frac + zone + "\nsequence: " + strconv.FormatUint(inside, 10) + "\n"
		return body, 0, 0
	}
	stamp := strings.ReplaceAll(t.Format("2006-01-02T15:04:05Z"), ":", "\\:")
	comment := "#" + t.Add(3*time.Second).Format(javaDate) + "\n"
	sn := "sequenceNumber=" + strconv.FormatUint(seq, 10) + "\n"
	tsl := "timestamp=" + stamp + "\n"
	txnMax = int(1000 + seq*3)
	txnQ = txnMax - int(seq%2)
	tm := "txnMax=" + strconv.Itoa(txnMax) + "\n"
	tq := "txnMaxQueried=" + strconv.Itoa(txnQ) + "\n"
	if d.big > 0 {
		// A busy database: osmosis lists every in-flight transaction id, so the file grows to kilobytes,
		// and java.util.Properties may put the long lists in front of the keys a reader needs.
		var al, rl strings.Builder
		for i := 0; i < d.big; i++ {
			if i > 0 {
				al.WriteByte(',')
				rl.WriteByte(',')
			}
			al.WriteString(strconv.Itoa(100000000 + txnMax + 3*i))
			rl.WriteString(strconv.Itoa(100000000 + txnMax + 3*i + 1))
		}
		active, ready := "txnActiveList="+al.String()+"\n", "txnReadyList="+rl.String()+"\n"
		switch d.style % 5 {
		case 0: // lists first, the keys a reader needs last
			body = comment + active + ready + tm + tq + tsl + sn
		case 1: // timestamp behind one list, sequence behind both
			body = comment + tq + active + tsl + ready + tm + sn
		case 2: // sequence early, timestamp last and without final newline
			body = comment + sn + tm + ready + active + tq + strings.TrimSuffix(tsl, "\n")
		case 3: // a long comment block in front as well
			body = comment + "#" + strings.Repeat("replication state written by osmosis; ", 20) + "\n" + active + sn + tq + tm + ready + tsl
		case 4: // today's key order with long lists
			body = comment + tq + sn + tsl + ready + tm + active
		}
		return body, txnMax, txnQ
	}
	switch d.style % 5 {
	case 0: // minutely file as written today
		body = comment + tq + sn + tsl + "txnReadyList=\n" + tm + "txnActiveList=" + strconv.Itoa(txnMax-7) + "," + strconv.Itoa(txnMax-3) + "\n"
	case 1: // hourly/daily file: no transaction bookkeeping
		body = comment + sn + tsl
		txnMax, txnQ = 0, 0
	case 2: // another key order (java.util.Properties is a hash table)
		body = comment + tsl + tm + "txnActiveList=\n" + "txnReadyList=\n" + sn + tq
	case 3: // no final newline
		body = comment + sn + tq + tm + strings.TrimSuffix(tsl, "\n")
	case 4: // sequence last
		body = comment + "txnActiveList=\ntxnReadyList=\n" + tm + tq + tsl + sn
	}
	return body, txnMax, txnQ
}

// ---------------------------------------------------------------- the planet as a transport

var errBudget = errors.New("simulated planet: request budget of the scenario exhausted")

type capPanic struct{}

type planetReq struct {
	seq    uint64 // 0: the newest-state file
	status int
}

// planet serves one planetDir and records what it was asked.
type planet struct {
	d        *planetDir
	budget   int
	n        int
	log      []planetReq
	bad      []string // requests outside the layout: "class|detail"
	exceeded bool
	n404     int
	n404run  int // longest run of consecutive 404s
	cur404   int
	hitFirst bool
	above    int
	offByOne int
	seqHash  uint64
}

func (p *planet) badReq(class, detail string) {
	if len(p.bad) < 4 {
		p.bad = append(p.bad, class+"|"+detail)
	}
}

func resp(req *http.Request, status int, body string) *http.Response {
	return &http.Response{
		Status: strconv.Itoa(status) + " " + http.StatusText(status), StatusCode: status,
		Proto: "HTTP/1.1", ProtoMajor: 1, ProtoMinor: 1,
		Header: http.Header{}, Body: io.NopCloser(strings.NewReader(body)), ContentLength: int64(len(body)), Request: req,
	}
}

func (p *planet) RoundTrip(req *http.Request) (*http.Response, error) {
	p.n++
	if p.n > p.budget {
		p.exceeded = true
		if p.n > 2*p.budget+64 {
			panic(capPanic{}) // the caller ignores transport errors: never spin forever
		}
		return nil, errBudget
	}
	d := p.d
	u := req.URL
	if req.Method != http.MethodGet {
		p.badReq("method-not-GET", req.Method+" "+u.String())
	}
	if u.Scheme != d.reqBase.Scheme || u.Host != d.reqBase.Host {
		p.badReq("wrong-scheme-or-host", u.String())
	}
	if u.RawQuery != "" || u.Fragment != "" || u.ForceQuery {
		p.badReq("unexpected-query", u.String())
	}
	path := u.EscapedPath()
	prefix := d.basePath + "/replication/" + kindDir[d.kind] + "/"
	if !strings.HasPrefix(path, prefix) {
		p.badReq("path-outside-the-kind-directory", u.String())
		p.log = append(p.log, planetReq{^uint64(0), 404})
		return resp(req, 404, "not found"), nil
	}
	rest := path[len(prefix):]
	curName := "state.txt"
	if d.kind == kChangeset {
		curName = "state.yaml"
	}
	var seq uint64
	cur := false
	switch {
	case rest == curName:
		cur = true
		seq = d.max
	case strings.HasSuffix(rest, ".state.txt"):
		s, ok := parseSeqPath(strings.TrimSuffix(rest, ".state.txt"))
		if !ok {
			p.badReq("path-not-three-level-zero-padded", u.String())
			p.log = append(p.log, planetReq{^uint64(0), 404})
			return resp(req, 404, "not found"), nil
		}
		if s == 0 {
			p.badReq("sequence-zero-file-requested", u.String())
		}
		seq = s
	default:
		p.badReq("not-a-state-file", u.String())
		p.log = append(p.log, planetReq{^uint64(0), 404})
		return resp(req, 404, "not found"), nil
	}
	if !cur && !d.avail(seq) {
		p.log = append(p.log, planetReq{seq, 404})
		p.seqHash = kit.Mix(p.seqHash ^ seq ^ 0x404<<48)
		if seq > d.max {
			p.above++
		} else if seq >= d.first {
			p.n404++
			p.cur404++
			if p.cur404 > p.n404run {
				p.n404run = p.cur404
			}
			if seq == d.first {
				p.hitFirst = true
			}
		}
		return resp(req, 404, "<html><body><h1>404 Not Found</h1></body></html>"), nil
	}
	p.cur404 = 0
	body, _, _ := d.render(seq, cur)
	if cur {
		p.log = append(p.log, planetReq{0, 200})
		p.seqHash = kit.Mix(p.seqHash ^ 0xc0<<56)
	} else {
		p.log = append(p.log, planetReq{seq, 200})
		p.seqHash = kit.Mix(p.seqHash ^ seq)
		if d.kind == kChangeset && seq >= changesetOffByOne {
			p.offByOne++
		}
	}
	return resp(req, 200, body), nil
}

func ceilLog2(n uint64) int {
	l := 0
	for v := uint64(1); v < n; v <<= 1 {
		l++
	}
	return l
}

// budgetFor is the request budget of a scenario: 8·(⌈log2 range⌉+2)·(1+missing)+16.
func budgetFor(d *planetDir) int {
	return 8*(ceilLog2(d.max)+2)*(1+len(d.missing)) + 16
}

// hardCap bounds every scenario's budget (the generators keep the formula below it).
const hardCap = 60000

// cycle looks for a periodic tail in the request log: the smallest period p such that the
// last 3p requests repeat with period p.
func cycle(log []planetReq) []planetReq {
	n := len(log)
	for p := 1; 3*p <= n; p++ {
		ok := true
		for i := n - 2*p; i < n && ok; i++ {
			if log[i] != log[i-p] {
				ok = false
			}
		}
		if ok {
			return log[n-p:]
		}
	}
	return nil
}
