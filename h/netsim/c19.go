package netsim

import (
	"context"
	"fmt"
	"net/http"
	"net/url"
	"sort"
	"strings"
	"testing"
	"time"

	"github.com/paulmach/osm/replication"

	"h/kit"
)

// ---------------------------------------------------------------- one scenario

type c19sc struct {
	d      *planetDir
	q      time.Time
	form   int // 0: method on a Datasource, 1: package-level function (DefaultDatasource)
	origin string
	qdesc  string
}

var planetBases = []string{"", "http://planet.sim.test", "https://mirror.sim.test/pub/osm-planet"}

func (d *planetDir) setBase(i int) {
	d.base = planetBases[i%len(planetBases)]
	b := d.base
	if b == "" {
		b = defaultPlanet
	}
	u, err := url.Parse(b)
	if err != nil {
		panic(err)
	}
	d.reqBase = u
	d.basePath = u.EscapedPath()
}

func (d *planetDir) missingList() []uint64 {
	out := make([]uint64, 0, len(d.missing))
	for k := range d.missing {
		out = append(out, k)
	}
	sort.Slice(out, func(i, j int) bool { return out[i] < out[j] })
	return out
}

func (sc *c19sc) describe() map[string]interface{} {
	d := sc.d
	ml := d.missingList()
	shown := ml
	if len(shown) > 40 {
		shown = shown[:40]
	}
	form := "Datasource method"
	if sc.form == 1 {
		form = "package-level function"
	}
	return map[string]interface{}{
		"origin": sc.origin, "kind": kindName[d.kind], "first_sequence": d.first, "newest_sequence": d.max,
		"missing_files": shown, "missing_count": len(ml), "seconds_between_states": d.step, "jitter": d.jitter,
		"pauses": fmt.Sprint(d.pauses), "state_file_style": d.style, "txn_ids_per_list_in_state_files": d.big, "base_url": d.base, "call_form": form,
		"query_time": sc.q.Format(time.RFC3339Nano), "query": sc.qdesc, "request_budget": budgetFor(d),
	}
}

func (sc *c19sc) hash() uint64 {
	d := sc.d
	h := kit.Mix(uint64(d.kind)<<60 ^ d.first ^ d.max<<20 ^ uint64(d.step)<<44)
	h = kit.Mix(h ^ uint64(d.t0) ^ d.jitSeed ^ uint64(d.style)<<8 ^ uint64(d.big)<<32 ^ uint64(sc.form)<<16 ^ uint64(len(d.base))<<24)
	if d.jitter {
		h = kit.Mix(h + 1)
	}
	for _, p := range d.pauses {
		h = kit.Mix(h ^ p.at ^ uint64(p.add)<<32)
	}
	for _, m := range d.missingList() {
		h = kit.Mix(h ^ m)
	}
	return kit.Mix(h ^ uint64(sc.q.UnixNano()))
}

type c19res struct {
	seq     uint64
	st      *replication.State
	err     error
	crash   string
	capped  bool
	tr      *planet
	want    uint64
	firstAv uint64
}

func callStateAt(ds *replication.Datasource, form, kind int, q time.Time) (uint64, *replication.State, error) {
	ctx := context.Background()
	if form == 1 {
		switch kind {
		case kMinute:
			n, s, err := replication.MinuteStateAt(ctx, q)
			return uint64(n), s, err
		case kHour:
			n, s, err := replication.HourStateAt(ctx, q)
			return uint64(n), s, err
		case kDay:
			n, s, err := replication.DayStateAt(ctx, q)
			return uint64(n), s, err
		}
		n, s, err := replication.ChangesetStateAt(ctx, q)
		return uint64(n), s, err
	}
	switch kind {
	case kMinute:
		n, s, err := ds.MinuteStateAt(ctx, q)
		return uint64(n), s, err
	case kHour:
		n, s, err := ds.HourStateAt(ctx, q)
		return uint64(n), s, err
	case kDay:
		n, s, err := ds.DayStateAt(ctx, q)
		return uint64(n), s, err
	}
	n, s, err := ds.ChangesetStateAt(ctx, q)
	return uint64(n), s, err
}

func execC19(sc *c19sc) (res c19res) {
	d := sc.d
	b := budgetFor(d)
	if b > hardCap {
		b = hardCap
	}
	tr := &planet{d: d, budget: b}
	res.tr = tr
	res.want, res.firstAv = d.firstAtOrAfter(sc.q)
	ds := &replication.Datasource{BaseURL: d.base, Client: &http.Client{Transport: tr}}
	if sc.form == 1 {
		old := replication.DefaultDatasource
		replication.DefaultDatasource = ds
		defer func() { replication.DefaultDatasource = old }()
	}
	defer func() {
		if r := recover(); r != nil {
			if _, ok := r.(capPanic); ok {
				res.capped = true
				return
			}
			res.crash = fmt.Sprint(r)
		}
	}()
	res.seq, res.st, res.err = callStateAt(ds, sc.form, d.kind, sc.q)
	return
}

// judgeC19 applies the oracles to one executed scenario.
func judgeC19(o *kit.Outcome, sc *c19sc, res *c19res, pin string) (violated bool) {
	d := sc.d
	tr := res.tr
	viol := func(class, f string, a ...interface{}) {
		violated = true
		for _, v := range o.Violations {
			if v.Class == class { // one example per class and run is enough
				o.Probe("further-violating-scenarios")
				return
			}
		}
		o.Violate(class, "%s%s %s..%s, %d missing %v, query %s (%s): %s", pin, kindName[d.kind], seqStr(d.first), seqStr(d.max), len(d.missing), short(d.missingList()), sc.q.Format(time.RFC3339Nano), sc.qdesc, fmt.Sprintf(f, a...))
	}
	seen := map[string]bool{}
	for _, b := range tr.bad {
		kv := strings.SplitN(b, "|", 2)
		if !seen[kv[0]] {
			seen[kv[0]] = true
			viol("C19/bad-request/"+kv[0], "request %s is not part of the planet layout for this kind under base %q", kv[1], d.base)
		}
	}
	if res.crash != "" {
		viol("C19/crash", "panic in the calling goroutine: %s", res.crash)
		return
	}
	if res.capped {
		viol("C19/non-termination/ignores-transport-errors", "the search kept issuing requests after the transport had failed %d of them", tr.budget+64)
		return
	}
	if tr.exceeded {
		cyc := cycle(tr.log)
		switch {
		case cyc == nil:
			viol("C19/request-budget-exceeded/no-cycle", "more than %d requests (budget 8*(ceil(log2 %d)+2)*(1+%d missing)+16) without a repeating pattern; last requests %s", tr.budget, d.max, len(d.missing), logTail(tr.log, 12))
		case gapRunCycle(cyc):
			viol("C19/non-termination/gaps-below-probe", "budget of %d requests exhausted; the search repeats the same %d requests forever: a missing probe file, the missing files below it, and the available state under them, which becomes the lower bound it already was: %s", tr.budget, len(cyc), logTail(cyc, 12))
		default:
			viol("C19/non-termination/other-cycle", "budget of %d requests exhausted; the search repeats the same %d requests forever: %s", tr.budget, len(cyc), logTail(cyc, 12))
		}
		return
	}
	if res.err != nil {
		class := "other"
		if e, ok := res.err.(*replication.UnexpectedStatusCodeError); ok {
			class = fmt.Sprintf("status-%d-returned-to-caller", e.Code)
		} else if strings.Contains(res.err.Error(), "parsing time") || strings.Contains(res.err.Error(), "strconv") {
			class = "state-file-not-decoded"
		}
		viol("C19/unexpected-error/"+class, "the lookup returned error %q; the directory has an answer: sequence %d", res.err.Error(), res.want)
		return
	}
	if res.st == nil {
		viol("C19/unexpected-error/nil-state-without-error", "nil state and nil error")
		return
	}
	got := res.seq
	if res.st.SeqNum != got {
		viol("C19/wrong-state-decoding/sequence-number-differs-from-state", "returned sequence %d but State.SeqNum %d", got, res.st.SeqNum)
	}
	if got != res.want {
		qpos := "between-states"
		switch {
		case !sc.q.After(d.ts(res.firstAv)):
			qpos = "at-or-before-first"
		case sc.q.After(d.ts(d.max)):
			qpos = "after-newest"
		case sc.q.Equal(d.ts(res.want)):
			qpos = "equal-to-state"
		}
		ff := "first-present"
		if d.missing[d.first] {
			ff = "first-missing"
		}
		gaps := "no-gaps"
		if len(d.missing) > 1 || (len(d.missing) == 1 && !d.missing[d.first]) {
			gaps = "gaps"
		}
		dir := "returned-later"
		switch {
		case !d.avail(got):
			dir = "returned-unavailable"
		case got < res.want:
			dir = "returned-earlier"
		}
		viol(fmt.Sprintf("C19/wrong-result/%s/%s/%s/%s", qpos, ff, gaps, dir),
			"returned sequence %d (timestamp %s), want %d (timestamp %s): the first available state at or after the query time, or the newest; %d requests: %s",
			got, res.st.Timestamp.Format(time.RFC3339Nano), res.want, d.ts(res.want).Format(time.RFC3339Nano), tr.n, logTail(tr.log, 30))
		return
	}
	// the right state: its content must be what the server wrote
	if !res.st.Timestamp.Equal(d.ts(got)) {
		viol("C19/wrong-state-decoding/timestamp", "state %d decoded with timestamp %s, the file says %s", got, res.st.Timestamp.Format(time.RFC3339Nano), d.ts(got).Format(time.RFC3339Nano))
	}
	if d.kind != kChangeset {
		_, tm, tq := d.render(got, false)
		if res.st.TxnMax != tm || res.st.TxnMaxQueried != tq {
			viol("C19/wrong-state-decoding/txn-fields", "state %d decoded with txnMax=%d txnMaxQueried=%d, the file says %d and %d", got, res.st.TxnMax, res.st.TxnMaxQueried, tm, tq)
		}
	}
	return
}

func seqStr(s uint64) string { return fmt.Sprint(s) }

func short(l []uint64) string {
	if len(l) > 24 {
		return fmt.Sprint(l[:24]) + "…"
	}
	return fmt.Sprint(l)
}

func logTail(log []planetReq, n int) string {
	var sb strings.Builder
	if len(log) > n {
		fmt.Fprintf(&sb, "…(%d earlier) ", len(log)-n)
		log = log[len(log)-n:]
	}
	for i, r := range log {
		if i > 0 {
			sb.WriteByte(' ')
		}
		switch {
		case r.seq == 0:
			sb.WriteString("newest")
		case r.seq == ^uint64(0):
			sb.WriteString("?")
		default:
			fmt.Fprintf(&sb, "%d", r.seq)
		}
		if r.status == 404 {
			sb.WriteString("(404)")
		}
	}
	return sb.String()
}

// gapRunCycle: the cycle is a contiguous block of sequences, all missing except the lowest.
func gapRunCycle(cyc []planetReq) bool {
	if len(cyc) < 2 {
		return false
	}
	lo, hi := cyc[0].seq, cyc[0].seq
	n200 := 0
	var s200 uint64
	seen := map[uint64]bool{}
	for _, r := range cyc {
		if r.seq == 0 || r.seq == ^uint64(0) || seen[r.seq] {
			return false
		}
		seen[r.seq] = true
		if r.seq < lo {
			lo = r.seq
		}
		if r.seq > hi {
			hi = r.seq
		}
		if r.status == 200 {
			n200++
			s200 = r.seq
		}
	}
	return n200 == 1 && s200 == lo && hi-lo+1 == uint64(len(cyc))
}

// ---------------------------------------------------------------- exhaustive small scope

// The small scope is: for every kind, every directory of n <= N consecutive sequences
// (starting at the kind's first sequence), every set of missing files among the n-1 below
// the newest, every boundary query time (before all; equal to each sequence's timestamp;
// between each neighbouring pair; after all).
type enumSpace struct {
	n      int
	total  int
	starts []int // start index of (kind, n) blocks, in order kind-major
}

func newEnumSpace(n int) *enumSpace {
	e := &enumSpace{n: n}
	for k := 0; k < 4; k++ {
		for s := 1; s <= n; s++ {
			e.starts = append(e.starts, e.total)
			e.total += (1 << (s - 1)) * (2*s + 2)
		}
	}
	return e
}

func (e *enumSpace) scenario(c int) *c19sc {
	bi := sort.Search(len(e.starts), func(i int) bool { return e.starts[i] > c }) - 1
	kind, n := bi/e.n, bi%e.n+1
	off := c - e.starts[bi]
	nq := 2*n + 2
	mask, q := off/nq, off%nq
	h := kit.Mix(uint64(c)*0x9e3779b97f4a7c15 + 12345)
	d := &planetDir{kind: kind, first: 1, missing: map[uint64]bool{}, t0: 1347400000, step: 600, jitSeed: h, jitter: mask%2 == 1 && n > 1}
	if kind == kChangeset {
		d.first = changesetFirst
		d.nanos = true
		d.t0 = 1473244000
		d.style = int(h % 4)
	} else {
		d.style = int(h % 5)
		if h>>24%8 == 0 { // one case in eight is served from large state files (about 0.7 KB to 22 KB)
			d.big = []int{30, 60, 150, 1000}[h>>28%4]
		}
	}
	d.max = d.first + uint64(n) - 1
	for i := 0; i < n-1; i++ {
		if mask&(1<<i) != 0 {
			d.missing[d.first+uint64(i)] = true
		}
	}
	d.setBase(int(h >> 8 % 3))
	sc := &c19sc{d: d, form: int(h >> 16 % 2), origin: "exhaustive-small-scope"}
	unit := time.Second
	if d.nanos {
		unit = time.Nanosecond
	}
	switch {
	case q == 0:
		sc.q = d.ts(d.first).Add(-time.Duration(d.step/2) * time.Second)
		sc.qdesc = "before all states"
	case q == 1:
		sc.q = d.ts(d.first).Add(-unit)
		sc.qdesc = "just before the first sequence's timestamp"
	case q == 2*n+1:
		sc.q = d.ts(d.max).Add(unit)
		sc.qdesc = "after all states"
	case q%2 == 0:
		s := d.first + uint64(q/2) - 1
		sc.q = d.ts(s)
		sc.qdesc = fmt.Sprintf("equal to the timestamp of sequence %d", s)
	default:
		s := d.first + uint64(q/2) - 1
		a, b := d.ts(s), d.ts(s+1)
		sc.q = a.Add(b.Sub(a) / 2)
		sc.qdesc = fmt.Sprintf("between the timestamps of sequences %d and %d", s, s+1)
	}
	return sc
}

func enumParams(tier string) (states, slices int) {
	if tier == "thorough" {
		return 11, 96
	}
	return 8, 16
}

// ---------------------------------------------------------------- sampled scenarios

const c19Cells = 56 // tape cells per sampled scenario (fixed width, so that a replay can pin one)

const maxMissing = 60

func drawScenario(t *kit.Tape) *c19sc {
	start := t.Used()
	defer func() {
		for t.Used() < start+c19Cells {
			t.Draw(1)
		}
	}()
	d := &planetDir{missing: map[uint64]bool{}, first: 1}
	d.kind = t.Draw(4)
	if d.kind == kChangeset {
		d.first = changesetFirst
		d.nanos = true
	}
	exp := t.Draw(25)
	n := uint64(1 + t.Int64(int64(1)<<uint(exp)))
	if n > 10000000 {
		n = 10000000
	}
	d.max = d.first + n - 1
	d.step = int64(t.Pick(60, 2, 3600, 86400, 7))
	for int64(n)*d.step > 150000000000 { // keep years four digits
		d.step = d.step/10 + 2
	}
	d.jitter = t.Bool()
	d.jitSeed = uint64(t.Draw(1 << 20))
	d.t0 = 1347400000 + int64(t.Draw(3000))*86400 + int64(t.Draw(86400))
	for i, np := 0, t.Draw(3); i < np; i++ {
		d.pauses = append(d.pauses, pause{at: d.first + uint64(t.Int64(int64(n))), add: int64(t.Pick(3600, 30*86400, 5, 86400))})
	}
	if d.kind == kChangeset {
		d.style = t.Draw(4)
	} else {
		d.style = t.Draw(5)
		if t.Chance(1, 6) { // large state files
			d.big = t.Pick(30, 60, 150, 400, 1000)
		}
	}
	d.setBase(t.Draw(3))
	sc := &c19sc{d: d, form: t.Draw(2), origin: "sampled"}

	// target sequence and query time
	s := d.first + uint64(t.Int64(int64(n)))
	unit := time.Second
	if d.nanos {
		unit = time.Nanosecond
	}
	switch t.Draw(8) {
	case 0:
		sc.q = d.ts(s)
		sc.qdesc = fmt.Sprintf("equal to the timestamp of sequence %d", s)
	case 1:
		if s < d.max {
			a, b := d.ts(s), d.ts(s+1)
			sc.q = a.Add(b.Sub(a) / 2)
			sc.qdesc = fmt.Sprintf("between the timestamps of sequences %d and %d", s, s+1)
		} else {
			sc.q = d.ts(s)
			sc.qdesc = "equal to the newest timestamp"
		}
	case 2:
		sc.q = d.ts(d.first).Add(-time.Duration(1+t.Draw(100000)) * time.Second)
		sc.qdesc = "before all states"
		s = d.first
	case 3:
		sc.q = d.ts(d.max).Add(time.Duration(1+t.Draw(100000)) * unit)
		sc.qdesc = "after all states"
		s = d.max
	case 4:
		sc.q = d.ts(s).Add(-unit)
		sc.qdesc = fmt.Sprintf("one time unit before the timestamp of sequence %d", s)
	case 5:
		sc.q = d.ts(s).Add(unit)
		sc.qdesc = fmt.Sprintf("one time unit after the timestamp of sequence %d", s)
	case 6:
		sc.q = d.ts(d.max)
		sc.qdesc = "equal to the newest timestamp"
		s = d.max
	case 7:
		sc.q = d.ts(d.first)
		sc.qdesc = "equal to the first sequence's timestamp"
		s = d.first
	}

	// gap plans
	add := func(lo, hi uint64) {
		if lo < d.first {
			lo = d.first
		}
		for x := lo; x <= hi && x < d.max && len(d.missing) < maxMissing; x++ {
			d.missing[x] = true
		}
	}
	for i, np := 0, t.Draw(5); i < np; i++ {
		typ := t.Draw(8)
		ln := uint64(1 + t.Draw(t.Pick(1, 3, 10, 60)))
		depth := t.Draw(24)
		// bisection interval on the way to s at the drawn depth
		lo, hi := d.first, d.max
		for k := 0; k < depth && lo+1 < hi; k++ {
			mid := (lo + hi) / 2
			if s <= mid {
				hi = mid
			} else {
				lo = mid
			}
		}
		mid := (lo + hi) / 2
		switch typ {
		case 0: // isolated
			x := d.first + uint64(t.Int64(int64(n)))
			add(x, x)
		case 1: // run that includes the first file
			add(d.first, d.first+ln-1)
		case 2: // run right above the first file
			add(d.first+1, d.first+ln)
		case 3: // run right below the newest
			if d.max > ln {
				add(d.max-ln, d.max-1)
			}
		case 4: // run around the target
			a := uint64(t.Draw(int(ln) + 1))
			if s > a {
				add(s-a, s-a+ln-1)
			} else {
				add(d.first, d.first+ln-1)
			}
		case 5: // run ending at a probe of the bisection
			if mid+1 > ln {
				add(mid+1-ln, mid)
			} else {
				add(d.first, mid)
			}
		case 6: // run starting at a probe
			add(mid, mid+ln-1)
		case 7: // everything between the bisection's lower end and its probe
			if mid-lo <= 70 {
				add(lo+1, mid)
			} else if mid+1 > ln {
				add(mid+1-ln, mid)
			}
		}
	}
	return sc
}

// ---------------------------------------------------------------- run function

const c19Batch = 300

func runC19(t *testing.T, r *kit.Run) {
	o := r.Out
	o.Faults = map[string]int{}
	states, slices := enumParams(r.Tier)
	var list []*c19sc
	var pins []string
	wl := uint64(0x19)
	pinned := r.Params != nil

	if pc, ok := r.Param("case"); ok {
		e := newEnumSpace(states)
		if st, ok := r.Param("states"); ok {
			e = newEnumSpace(int(st))
		}
		if int(pc) < e.total {
			list = append(list, e.scenario(int(pc)))
			pins = append(pins, fmt.Sprintf("[[case=%d states=%d]] ", pc, e.n))
		}
	} else if r.Index < slices {
		e := newEnumSpace(states)
		for c := r.Index; c < e.total; c += slices {
			list = append(list, e.scenario(c))
			pins = append(pins, fmt.Sprintf("[[case=%d states=%d]] ", c, states))
		}
		o.Probe("exhaustive-small-scope-slices")
	} else {
		ps, isPinned := r.Param("sc")
		for k := 0; k < c19Batch; k++ {
			sc := drawScenario(r.Tape)
			if isPinned && int64(k) != ps {
				continue
			}
			list = append(list, sc)
			pins = append(pins, fmt.Sprintf("[[sc=%d]] ", k))
			if isPinned {
				break
			}
		}
	}

	var sample, bad interface{}
	for i, sc := range list {
		res := execC19(sc)
		tr := res.tr
		o.Evals++
		h := sc.hash()
		wl = kit.Mix(wl ^ h)
		o.Scheds = append(o.Scheds, tr.seqHash)
		d := sc.d
		nontrivial := !sc.q.After(d.ts(d.max)) && (d.max-d.first >= 2 || len(d.missing) > 0)
		if nontrivial {
			o.NonTrivial++
			o.Pairs = append(o.Pairs, kit.Mix(h^tr.seqHash))
			if sample == nil {
				sample = sc.describe()
			}
		}
		// faults that fired, probes
		if tr.n404 > 0 {
			o.Faults["404"] += tr.n404
			o.Probe("gap-hit-by-the-search")
		}
		if tr.n404run >= 2 {
			o.Faults["404-run"]++
			o.Probe("run-of-gaps-walked")
		}
		if tr.hitFirst {
			o.Faults["404-first-file"]++
			o.Probe("first-file-missing")
		}
		if tr.above > 0 {
			o.Probe("request-above-newest")
		}
		if tr.offByOne > 0 {
			o.Probe("changeset-state-file-with-off-by-one-number")
		}
		if d.big > 0 && d.kind != kChangeset {
			o.Probe("large-state-files")
		}
		if d.max-d.first+1 >= 1000000 {
			o.Probe("range-of-a-million-or-more")
		}
		if d.max-d.first <= 1 {
			o.Probe("one-or-two-states")
		}
		switch {
		case sc.q.After(d.ts(d.max)):
			o.Probe("query-after-newest")
		case sc.q.Before(d.ts(res.firstAv)):
			o.Probe("query-before-first")
		case sc.q.Equal(d.ts(res.want)):
			o.Probe("query-equal-to-a-state")
		default:
			o.Probe("query-between-states")
		}
		if res.want > d.first && d.missing[res.want-1] && !sc.q.After(d.ts(d.max)) {
			o.Probe("answer-right-above-a-gap")
		}
		if judgeC19(o, sc, &res, pins[i]) && bad == nil {
			bad = sc.describe()
		}
	}
	o.Workload = wl
	switch {
	case bad != nil:
		o.Scenario = bad
	case sample != nil:
		o.Scenario = sample
	case len(list) > 0:
		o.Scenario = list[0].describe()
	}
	_ = pinned
}
