package netsim

import (
	"context"
	"errors"
	"fmt"
	"math"
	"net/http"
	"net/url"
	"sort"
	"strconv"
	"strings"
	"testing"
	"time"

	"github.com/paulmach/osm"
	"github.com/paulmach/osm/osmapi"
	"github.com/paulmach/osm/simrt"

	"h/kit"
	"h/simu"
)

// ---------------------------------------------------------------- arguments of a call

type noteOpt struct {
	limit bool // else: closed
	val   int
}

type apiArgs struct {
	id       int64
	ver      int
	ids      []int64
	bounds   osm.Bounds
	q        string
	ats      []time.Time
	nopts    []noteOpt
	badLimit bool
	salt     uint64
	many     int
}

var queryPool = []string{"fixme", "a b", "a&b=c", "100% sure?", "Straße+Weg", "#hash/and?question", "日本 語", "", "q=1;drop", "plus+plus"}

// drawCoord draws a coordinate with 0, 6 or 7 decimals (7 is the resolution of OSM coordinates).
func drawCoord(t *kit.Tape, r int, prec int) float64 {
	switch prec {
	case 0:
		return float64(t.Draw(2*r+1) - r)
	case 1:
		return float64(t.Int64(int64(2*r)*1000000)-int64(r)*1000000) / 1e6
	}
	return float64(t.Int64(int64(2*r)*10000000)-int64(r)*10000000) / 1e7
}

func drawID(t *kit.Tape) int64 {
	switch t.Draw(4) {
	case 0:
		return 1 + int64(t.Draw(1000))
	case 1:
		return 1 + t.Int64(1<<32)
	case 2:
		return 1 + t.Int64(1<<62)
	}
	return math.MaxInt64 - int64(t.Draw(3))
}

func drawArgs(t *kit.Tape, ep *endpoint) *apiArgs {
	a := &apiArgs{}
	a.id = drawID(t)
	a.ver = 1 + t.Draw(2000)
	for i, n := 0, 1+t.Draw(6); i < n; i++ {
		a.ids = append(a.ids, drawID(t))
	}
	if t.Chance(1, 10) {
		a.ids = append(a.ids, a.ids[0]) // a repeated id
	}
	prec := t.Draw(3)
	a.bounds.MinLon, a.bounds.MinLat = drawCoord(t, 179, prec), drawCoord(t, 89, prec)
	unit := []float64{1, 1e6, 1e7}[prec]
	ext := []int{1, 500000, 5000000}[prec]
	a.bounds.MaxLon = math.Round((a.bounds.MinLon+float64(1+t.Draw(ext))/unit)*unit) / unit
	a.bounds.MaxLat = math.Round((a.bounds.MinLat+float64(1+t.Draw(ext))/unit)*unit) / unit
	a.q = queryPool[t.Draw(len(queryPool))]
	for i, n := 0, t.Draw(3); i < n; i++ {
		a.q += " " + queryPool[t.Draw(len(queryPool))]
	}
	if ep.feat {
		for i, n := 0, t.Draw(3); i < n; i++ {
			tm := time.Unix(1100000000+t.Int64(600000000), 0)
			switch t.Draw(3) {
			case 0:
				tm = tm.UTC()
			case 1:
				tm = tm.In(time.FixedZone("east", 5*3600+1800))
			case 2:
				tm = tm.In(time.FixedZone("west", -8*3600))
			}
			a.ats = append(a.ats, tm)
		}
	}
	if ep.notesOpt {
		switch t.Draw(6) {
		case 1:
			a.nopts = []noteOpt{{true, t.Pick(1, 10000, 100, 2, 9999)}}
		case 2:
			a.nopts = []noteOpt{{false, t.Pick(0, -1, 7, 365)}}
		case 3:
			a.nopts = []noteOpt{{true, 1 + t.Draw(10000)}, {false, t.Draw(30) - 1}}
		case 4:
			a.nopts = []noteOpt{{false, t.Draw(30) - 1}, {true, 1 + t.Draw(10000)}}
		case 5:
			a.nopts = []noteOpt{{true, t.Pick(0, 10001, -1, 1<<30)}}
			a.badLimit = true
		}
	}
	a.salt = uint64(t.Draw(1 << 30))
	a.many = 2 + t.Draw(4)
	return a
}

func (a *apiArgs) feat() []osmapi.FeatureOption {
	var o []osmapi.FeatureOption
	for _, t := range a.ats {
		o = append(o, osmapi.At(t))
	}
	return o
}

func (a *apiArgs) notes() []osmapi.NotesOption {
	var o []osmapi.NotesOption
	for _, n := range a.nopts {
		if n.limit {
			o = append(o, osmapi.Limit(n.val))
		} else {
			o = append(o, osmapi.MaxDaysClosed(n.val))
		}
	}
	return o
}

func (a *apiArgs) describe(ep *endpoint) map[string]interface{} {
	m := map[string]interface{}{"endpoint": ep.name}
	switch ep.argKind {
	case "id":
		m["id"] = a.id
	case "idver":
		m["id"], m["version"] = a.id, a.ver
	case "ids":
		m["ids"] = a.ids
	case "bounds":
		m["bounds"] = fmt.Sprintf("minlon=%v minlat=%v maxlon=%v maxlat=%v", a.bounds.MinLon, a.bounds.MinLat, a.bounds.MaxLon, a.bounds.MaxLat)
	case "query":
		m["query"] = a.q
	}
	if len(a.ats) > 0 {
		var s []string
		for _, t := range a.ats {
			s = append(s, t.Format(time.RFC3339))
		}
		m["at_options"] = s
	}
	if len(a.nopts) > 0 {
		m["notes_options"] = fmt.Sprint(a.nopts)
	}
	return m
}

// ---------------------------------------------------------------- the endpoint table
//
// Transcribed from the OSM API v0.6 documentation (wiki "API v0.6"): element reads are
// GET /api/0.6/[node|way|relation]/#id, .../#id/#version, .../#id/history,
// /[nodes|ways|relations]?#parameters with the plural as parameter name and a comma separated
// id list, /node/#id/ways, /[node|way|relation]/#id/relations, /[way|relation]/#id/full,
// /map?bbox=left,bottom,right,top, /changeset/#id?include_discussion=true,
// /changeset/#id/download, /notes/#id, /notes?bbox=left,bottom,right,top[&limit][&closed],
// /notes/search?q=SearchTerm[&limit][&closed], /user/#id. The "at" parameter of the feature
// options is not part of that document; it is taken from the library's doc comment
// (`at=2006-01-02T15:04:05Z`, UTC).

type kv struct{ k, v string }

type callRes struct {
	sigs   []string
	nonNil bool // a non-nil / non-empty value came back
	err    error
}

type endpoint struct {
	name     string
	kind     string // element kind of the answer: node way relation changeset note user | osm | change
	single   bool
	feat     bool
	notesOpt bool
	argKind  string
	path     func(a *apiArgs) string
	query    func(a *apiArgs) []kv
	call     func(ctx context.Context, ds *osmapi.Datasource, a *apiArgs) callRes // ds == nil: package-level function
}

func one(e interface{}, isNil bool, err error) callRes {
	if isNil {
		return callRes{err: err}
	}
	return callRes{sigs: []string{sig(e)}, nonNil: true, err: err}
}

func listNodes(l osm.Nodes, err error) callRes {
	r := callRes{err: err, nonNil: len(l) > 0}
	for _, x := range l {
		r.sigs = append(r.sigs, sig(x))
	}
	return r
}
func listWays(l osm.Ways, err error) callRes {
	r := callRes{err: err, nonNil: len(l) > 0}
	for _, x := range l {
		r.sigs = append(r.sigs, sig(x))
	}
	return r
}
func listRels(l osm.Relations, err error) callRes {
	r := callRes{err: err, nonNil: len(l) > 0}
	for _, x := range l {
		r.sigs = append(r.sigs, sig(x))
	}
	return r
}
func listNotes(l osm.Notes, err error) callRes {
	r := callRes{err: err, nonNil: len(l) > 0}
	for _, x := range l {
		r.sigs = append(r.sigs, sig(x))
	}
	return r
}
func wholeOSM(o *osm.OSM, err error) callRes {
	return callRes{sigs: sigOSM("", o), nonNil: o != nil, err: err}
}
func wholeChange(c *osm.Change, err error) callRes {
	r := callRes{err: err, nonNil: c != nil}
	if c != nil {
		r.sigs = append(r.sigs, sigOSM("create ", c.Create)...)
		r.sigs = append(r.sigs, sigOSM("modify ", c.Modify)...)
		r.sigs = append(r.sigs, sigOSM("delete ", c.Delete)...)
	}
	return r
}

func idList(ids []int64) string {
	var s []string
	for _, i := range ids {
		s = append(s, strconv.FormatInt(i, 10))
	}
	return strings.Join(s, ",")
}

func bboxStr(b osm.Bounds) string {
	f := func(v float64) string { return strconv.FormatFloat(v, 'f', -1, 64) }
	return f(b.MinLon) + "," + f(b.MinLat) + "," + f(b.MaxLon) + "," + f(b.MaxLat)
}

func nodeIDs(a *apiArgs) []osm.NodeID {
	var o []osm.NodeID
	for _, i := range a.ids {
		o = append(o, osm.NodeID(i))
	}
	return o
}
func wayIDs(a *apiArgs) []osm.WayID {
	var o []osm.WayID
	for _, i := range a.ids {
		o = append(o, osm.WayID(i))
	}
	return o
}
func relIDs(a *apiArgs) []osm.RelationID {
	var o []osm.RelationID
	for _, i := range a.ids {
		o = append(o, osm.RelationID(i))
	}
	return o
}

func p(format string) func(a *apiArgs) string {
	return func(a *apiArgs) string {
		switch strings.Count(format, "%d") {
		case 2:
			return fmt.Sprintf(format, a.id, a.ver)
		case 1:
			return fmt.Sprintf(format, a.id)
		}
		return format
	}
}

var endpoints = []*endpoint{
	{name: "Node", kind: "node", single: true, feat: true, argKind: "id", path: p("/node/%d"),
		call: func(ctx context.Context, ds *osmapi.Datasource, a *apiArgs) callRes {
			if ds == nil {
				v, err := osmapi.Node(ctx, osm.NodeID(a.id), a.feat()...)
				return one(v, v == nil, err)
			}
			v, err := ds.Node(ctx, osm.NodeID(a.id), a.feat()...)
			return one(v, v == nil, err)
		}},
	{name: "Nodes", kind: "node", feat: true, argKind: "ids", path: p("/nodes"), query: func(a *apiArgs) []kv { return []kv{{"nodes", idList(a.ids)}} },
		call: func(ctx context.Context, ds *osmapi.Datasource, a *apiArgs) callRes {
			if ds == nil {
				return listNodes(osmapi.Nodes(ctx, nodeIDs(a), a.feat()...))
			}
			return listNodes(ds.Nodes(ctx, nodeIDs(a), a.feat()...))
		}},
	{name: "NodeVersion", kind: "node", single: true, argKind: "idver", path: p("/node/%d/%d"),
		call: func(ctx context.Context, ds *osmapi.Datasource, a *apiArgs) callRes {
			if ds == nil {
				v, err := osmapi.NodeVersion(ctx, osm.NodeID(a.id), a.ver)
				return one(v, v == nil, err)
			}
			v, err := ds.NodeVersion(ctx, osm.NodeID(a.id), a.ver)
			return one(v, v == nil, err)
		}},
	{name: "NodeHistory", kind: "node", argKind: "id", path: p("/node/%d/history"),
		call: func(ctx context.Context, ds *osmapi.Datasource, a *apiArgs) callRes {
			if ds == nil {
				return listNodes(osmapi.NodeHistory(ctx, osm.NodeID(a.id)))
			}
			return listNodes(ds.NodeHistory(ctx, osm.NodeID(a.id)))
		}},
	{name: "NodeWays", kind: "way", feat: true, argKind: "id", path: p("/node/%d/ways"),
		call: func(ctx context.Context, ds *osmapi.Datasource, a *apiArgs) callRes {
			if ds == nil {
				return listWays(osmapi.NodeWays(ctx, osm.NodeID(a.id), a.feat()...))
			}
			return listWays(ds.NodeWays(ctx, osm.NodeID(a.id), a.feat()...))
		}},
	{name: "NodeRelations", kind: "relation", feat: true, argKind: "id", path: p("/node/%d/relations"),
		call: func(ctx context.Context, ds *osmapi.Datasource, a *apiArgs) callRes {
			if ds == nil {
				return listRels(osmapi.NodeRelations(ctx, osm.NodeID(a.id), a.feat()...))
			}
			return listRels(ds.NodeRelations(ctx, osm.NodeID(a.id), a.feat()...))
		}},
	{name: "Way", kind: "way", single: true, feat: true, argKind: "id", path: p("/way/%d"),
		call: func(ctx context.Context, ds *osmapi.Datasource, a *apiArgs) callRes {
			if ds == nil {
				v, err := osmapi.Way(ctx, osm.WayID(a.id), a.feat()...)
				return one(v, v == nil, err)
			}
			v, err := ds.Way(ctx, osm.WayID(a.id), a.feat()...)
			return one(v, v == nil, err)
		}},
	{name: "Ways", kind: "way", feat: true, argKind: "ids", path: p("/ways"), query: func(a *apiArgs) []kv { return []kv{{"ways", idList(a.ids)}} },
		call: func(ctx context.Context, ds *osmapi.Datasource, a *apiArgs) callRes {
			if ds == nil {
				return listWays(osmapi.Ways(ctx, wayIDs(a), a.feat()...))
			}
			return listWays(ds.Ways(ctx, wayIDs(a), a.feat()...))
		}},
	{name: "WayVersion", kind: "way", single: true, argKind: "idver", path: p("/way/%d/%d"),
		call: func(ctx context.Context, ds *osmapi.Datasource, a *apiArgs) callRes {
			if ds == nil {
				v, err := osmapi.WayVersion(ctx, osm.WayID(a.id), a.ver)
				return one(v, v == nil, err)
			}
			v, err := ds.WayVersion(ctx, osm.WayID(a.id), a.ver)
			return one(v, v == nil, err)
		}},
	{name: "WayHistory", kind: "way", argKind: "id", path: p("/way/%d/history"),
		call: func(ctx context.Context, ds *osmapi.Datasource, a *apiArgs) callRes {
			if ds == nil {
				return listWays(osmapi.WayHistory(ctx, osm.WayID(a.id)))
			}
			return listWays(ds.WayHistory(ctx, osm.WayID(a.id)))
		}},
	{name: "WayRelations", kind: "relation", feat: true, argKind: "id", path: p("/way/%d/relations"),
		call: func(ctx context.Context, ds *osmapi.Datasource, a *apiArgs) callRes {
			if ds == nil {
				return listRels(osmapi.WayRelations(ctx, osm.WayID(a.id), a.feat()...))
			}
			return listRels(ds.WayRelations(ctx, osm.WayID(a.id), a.feat()...))
		}},
	{name: "WayFull", kind: "osm", feat: true, argKind: "id", path: p("/way/%d/full"),
		call: func(ctx context.Context, ds *osmapi.Datasource, a *apiArgs) callRes {
			if ds == nil {
				return wholeOSM(osmapi.WayFull(ctx, osm.WayID(a.id), a.feat()...))
			}
			return wholeOSM(ds.WayFull(ctx, osm.WayID(a.id), a.feat()...))
		}},
	{name: "Relation", kind: "relation", single: true, feat: true, argKind: "id", path: p("/relation/%d"),
		call: func(ctx context.Context, ds *osmapi.Datasource, a *apiArgs) callRes {
			if ds == nil {
				v, err := osmapi.Relation(ctx, osm.RelationID(a.id), a.feat()...)
				return one(v, v == nil, err)
			}
			v, err := ds.Relation(ctx, osm.RelationID(a.id), a.feat()...)
			return one(v, v == nil, err)
		}},
	{name: "Relations", kind: "relation", feat: true, argKind: "ids", path: p("/relations"), query: func(a *apiArgs) []kv { return []kv{{"relations", idList(a.ids)}} },
		call: func(ctx context.Context, ds *osmapi.Datasource, a *apiArgs) callRes {
			if ds == nil {
				return listRels(osmapi.Relations(ctx, relIDs(a), a.feat()...))
			}
			return listRels(ds.Relations(ctx, relIDs(a), a.feat()...))
		}},
	{name: "RelationVersion", kind: "relation", single: true, argKind: "idver", path: p("/relation/%d/%d"),
		call: func(ctx context.Context, ds *osmapi.Datasource, a *apiArgs) callRes {
			if ds == nil {
				v, err := osmapi.RelationVersion(ctx, osm.RelationID(a.id), a.ver)
				return one(v, v == nil, err)
			}
			v, err := ds.RelationVersion(ctx, osm.RelationID(a.id), a.ver)
			return one(v, v == nil, err)
		}},
	{name: "RelationHistory", kind: "relation", argKind: "id", path: p("/relation/%d/history"),
		call: func(ctx context.Context, ds *osmapi.Datasource, a *apiArgs) callRes {
			if ds == nil {
				return listRels(osmapi.RelationHistory(ctx, osm.RelationID(a.id)))
			}
			return listRels(ds.RelationHistory(ctx, osm.RelationID(a.id)))
		}},
	{name: "RelationRelations", kind: "relation", feat: true, argKind: "id", path: p("/relation/%d/relations"),
		call: func(ctx context.Context, ds *osmapi.Datasource, a *apiArgs) callRes {
			if ds == nil {
				return listRels(osmapi.RelationRelations(ctx, osm.RelationID(a.id), a.feat()...))
			}
			return listRels(ds.RelationRelations(ctx, osm.RelationID(a.id), a.feat()...))
		}},
	{name: "RelationFull", kind: "osm", feat: true, argKind: "id", path: p("/relation/%d/full"),
		call: func(ctx context.Context, ds *osmapi.Datasource, a *apiArgs) callRes {
			if ds == nil {
				return wholeOSM(osmapi.RelationFull(ctx, osm.RelationID(a.id), a.feat()...))
			}
			return wholeOSM(ds.RelationFull(ctx, osm.RelationID(a.id), a.feat()...))
		}},
	{name: "Changeset", kind: "changeset", single: true, argKind: "id", path: p("/changeset/%d"),
		call: func(ctx context.Context, ds *osmapi.Datasource, a *apiArgs) callRes {
			if ds == nil {
				v, err := osmapi.Changeset(ctx, osm.ChangesetID(a.id))
				return one(v, v == nil, err)
			}
			v, err := ds.Changeset(ctx, osm.ChangesetID(a.id))
			return one(v, v == nil, err)
		}},
	{name: "ChangesetWithDiscussion", kind: "changeset", single: true, argKind: "id", path: p("/changeset/%d"), query: func(a *apiArgs) []kv { return []kv{{"include_discussion", "true"}} },
		call: func(ctx context.Context, ds *osmapi.Datasource, a *apiArgs) callRes {
			if ds == nil {
				v, err := osmapi.ChangesetWithDiscussion(ctx, osm.ChangesetID(a.id))
				return one(v, v == nil, err)
			}
			v, err := ds.ChangesetWithDiscussion(ctx, osm.ChangesetID(a.id))
			return one(v, v == nil, err)
		}},
	{name: "ChangesetDownload", kind: "change", argKind: "id", path: p("/changeset/%d/download"),
		call: func(ctx context.Context, ds *osmapi.Datasource, a *apiArgs) callRes {
			if ds == nil {
				return wholeChange(osmapi.ChangesetDownload(ctx, osm.ChangesetID(a.id)))
			}
			return wholeChange(ds.ChangesetDownload(ctx, osm.ChangesetID(a.id)))
		}},
	{name: "Map", kind: "osm", feat: true, argKind: "bounds", path: p("/map"), query: func(a *apiArgs) []kv { return []kv{{"bbox", bboxStr(a.bounds)}} },
		call: func(ctx context.Context, ds *osmapi.Datasource, a *apiArgs) callRes {
			b := a.bounds
			if ds == nil {
				return wholeOSM(osmapi.Map(ctx, &b, a.feat()...))
			}
			return wholeOSM(ds.Map(ctx, &b, a.feat()...))
		}},
	{name: "Note", kind: "note", single: true, argKind: "id", path: p("/notes/%d"),
		call: func(ctx context.Context, ds *osmapi.Datasource, a *apiArgs) callRes {
			if ds == nil {
				v, err := osmapi.Note(ctx, osm.NoteID(a.id))
				return one(v, v == nil, err)
			}
			v, err := ds.Note(ctx, osm.NoteID(a.id))
			return one(v, v == nil, err)
		}},
	{name: "Notes", kind: "note", notesOpt: true, argKind: "bounds", path: p("/notes"), query: func(a *apiArgs) []kv { return []kv{{"bbox", bboxStr(a.bounds)}} },
		call: func(ctx context.Context, ds *osmapi.Datasource, a *apiArgs) callRes {
			b := a.bounds
			if ds == nil {
				return listNotes(osmapi.Notes(ctx, &b, a.notes()...))
			}
			return listNotes(ds.Notes(ctx, &b, a.notes()...))
		}},
	{name: "NotesSearch", kind: "note", notesOpt: true, argKind: "query", path: p("/notes/search"), query: func(a *apiArgs) []kv { return []kv{{"q", a.q}} },
		call: func(ctx context.Context, ds *osmapi.Datasource, a *apiArgs) callRes {
			if ds == nil {
				return listNotes(osmapi.NotesSearch(ctx, a.q, a.notes()...))
			}
			return listNotes(ds.NotesSearch(ctx, a.q, a.notes()...))
		}},
	{name: "User", kind: "user", single: true, argKind: "id", path: p("/user/%d"),
		call: func(ctx context.Context, ds *osmapi.Datasource, a *apiArgs) callRes {
			if ds == nil {
				v, err := osmapi.User(ctx, osm.UserID(a.id))
				return one(v, v == nil, err)
			}
			v, err := ds.User(ctx, osm.UserID(a.id))
			return one(v, v == nil, err)
		}},
}

// ---------------------------------------------------------------- the enumerated table

// 200, then non-200 statuses below 400 that net/http's client hands to the caller unchanged (2xx other
// than 200; 300 and 304, which it never follows; 301, 302 and 307 answered without a Location header,
// which it cannot follow and returns as they are), then the client and server errors.
var apiStatuses = []int{200, 201, 202, 203, 204, 206, 300, 301, 302, 304, 307, 400, 401, 403, 404, 405, 409, 410, 412, 414, 429, 500, 501, 502, 503, 504, 509}

// call forms: how the Datasource under test is configured
const (
	formMethod    = iota // method on a Datasource with its own Client
	formPackage          // package-level function, i.e. osmapi.DefaultDatasource
	formNilClient        // method on a Datasource whose Client is nil: it inherits osmapi.DefaultDatasource.Client
	numForms
)

var formName = []string{"method form, own Client", "package-level form", "method form, Client nil (inherits DefaultDatasource.Client)"}

// count variants: own elements / elements of other kinds in the same document
var countVariants = []struct {
	name   string
	own    int // 0, 1, -1 = many
	others bool
}{{"zero", 0, false}, {"one", 1, false}, {"many", -1, false}, {"zero+other-kinds", 0, true}, {"one+other-kinds", 1, true}, {"many+other-kinds", -1, true}}

// argSets argument draws per endpoint and tape; a cell uses one of them, chosen by its coordinates.
const argSets = 4

// customAPIBases are the configured base URLs of the "custom" half of the table; which one a cell uses is
// a function of its coordinates, so every call sees all of them across its statuses, shapes and limiter modes.
// Two of them carry percent escapes in the path (a space; an escaped slash that must stay escaped): the
// request must keep the escaped form, which the server compares (URL.EscapedPath on both sides).
var customAPIBases = []string{
	"https://api.sim.test:8443/osm/api/0.6",
	"http://osm.sim.test/my%20mirror/api/0.6",
	"http://gateway.sim.test/fetch/api.openstreetmap.org%2Fapi/0.6",
}

func customBaseOf(c c20cell) string { return customAPIBases[(c.st+c.cv+c.lim)%len(customAPIBases)] }

type c20cell struct {
	ep, form, st, cv, lim, base int
}

func numCells() int { return len(endpoints) * numForms * len(apiStatuses) * len(countVariants) * 4 * 2 }

func cellOf(i int) c20cell {
	var c c20cell
	c.base = i % 2
	i /= 2
	c.lim = i % 4
	i /= 4
	c.cv = i % len(countVariants)
	i /= len(countVariants)
	c.st = i % len(apiStatuses)
	i /= len(apiStatuses)
	c.form = i % numForms
	i /= numForms
	c.ep = i
	return c
}

var otherKinds = map[string][]string{
	"node": {"way", "relation"}, "way": {"node", "relation"}, "relation": {"node", "way", "note"},
	"changeset": {"node", "user"}, "note": {"user", "node"}, "user": {"note", "changeset"},
	"osm": {"changeset", "note", "user"},
}

// buildBody writes the response document of a cell and returns what a correct client hands back.
func buildBody(ep *endpoint, a *apiArgs, cv int) (body string, want []string, ownCount int) {
	v := countVariants[cv]
	n := v.own
	if n < 0 {
		n = a.many
	}
	var sb strings.Builder
	sb.WriteString(`<?xml version="1.0" encoding="UTF-8"?>` + "\n")
	if ep.kind == "change" {
		sb.WriteString(`<osmChange version="0.6" generator="simulated API" copyright="OpenStreetMap and contributors">`)
		// the API writes one action block per element
		acts := []string{"create", "modify", "delete"}
		kinds := []string{"node", "way", "relation"}
		byAct := map[string][]string{}
		total := n
		if v.others {
			total = n + 2 // further blocks of an action already present
		}
		for i := 0; i < total; i++ {
			act, kind := acts[i%3], kinds[(i/3+i)%3]
			e := makeElem(kind, a.salt, i)
			sb.WriteString("<" + act + ">")
			elemXML(&sb, e)
			sb.WriteString("</" + act + ">")
			byAct[act] = append(byAct[act], kind[:1]+act+" "+sig(e))
		}
		sb.WriteString("</osmChange>")
		// expected order: create, modify, delete; inside an action nodes, ways, relations in document order
		for _, act := range acts {
			for _, k := range []string{"n", "w", "r"} {
				for _, s := range byAct[act] {
					if s[:1] == k {
						want = append(want, s[1:])
					}
				}
			}
		}
		return sb.String(), want, total
	}
	sb.WriteString(`<osm version="0.6" generator="simulated API" copyright="OpenStreetMap and contributors" attribution="http://www.openstreetmap.org/copyright" license="http://opendatacommons.org/licenses/odbl/1-0/">`)
	type item struct {
		kind string
		e    interface{}
	}
	var items []item
	ownKinds := []string{ep.kind}
	if ep.kind == "osm" {
		ownKinds = []string{"node", "way", "relation"}
	}
	for i := 0; i < n; i++ {
		k := ownKinds[i%len(ownKinds)]
		items = append(items, item{k, makeElem(k, a.salt, i)})
	}
	if v.others {
		ok := otherKinds[ep.kind]
		extra := []item{{ok[0], makeElem(ok[0], a.salt, 100)}, {ok[1%len(ok)], makeElem(ok[1%len(ok)], a.salt, 101)}, {ok[0], makeElem(ok[0], a.salt, 102)}}
		// other kinds before, between and after the own elements
		mixed := []item{extra[0]}
		for i, it := range items {
			mixed = append(mixed, it)
			if i == 0 {
				mixed = append(mixed, extra[1])
			}
		}
		mixed = append(mixed, extra[2])
		items = mixed
	}
	if ep.kind == "osm" && len(items) > 0 {
		sb.WriteString(`<bounds minlat="1.0000000" minlon="2.0000000" maxlat="3.0000000" maxlon="4.0000000"/>`)
	}
	for _, it := range items {
		elemXML(&sb, it.e)
	}
	sb.WriteString("</osm>")
	if ep.kind == "osm" {
		for _, k := range []string{"node", "way", "relation", "changeset", "note", "user"} {
			for _, it := range items {
				if it.kind == k {
					want = append(want, sig(it.e))
					ownCount++
				}
			}
		}
		return sb.String(), want, ownCount
	}
	for _, it := range items {
		if it.kind == ep.kind {
			want = append(want, sig(it.e))
			ownCount++
		}
	}
	return sb.String(), want, ownCount
}

var errorBodies = []string{"", "The node with the id 1 has been deleted", "<html><body>error</body></html>"}

type cellRun struct {
	cell  c20cell
	idx   int
	ep    *endpoint
	a     *apiArgs
	srv   *apiServer
	lim   *simLimiter
	res   callRes
	want  []string
	own   int
	crash string
	d     time.Duration
	base  string

	retryAfter string
}

// retryAfterVariant says which Retry-After header a throttling answer (429, 503, 509) of the cell carries:
// 0 none, 1 "0", 2 a small number of seconds (1..10), 3 a larger number, 4 an HTTP date. A function of the
// cell's coordinates: every (call, form, status) meets all five across its shapes, limiter modes and bases.
func retryAfterVariant(c c20cell) int {
	switch apiStatuses[c.st] {
	case 429, 503, 509:
		return (c.cv + 2*c.lim + c.base) % 5
	}
	return 0
}

// cellHeaders are the response headers of a cell beyond Content-Type: what real servers and proxies add
// (Date, Server, Content-Length, Cache-Control, a Content-Type spelling), none of which changes what the
// statement says about the call, and Retry-After on throttling answers.
func cellHeaders(c c20cell, idx int, a *apiArgs) (h [][2]string, retryAfter string) {
	switch idx % 4 {
	case 1:
		h = append(h, [2]string{"Date", "Sat, 03 Oct 2026 10:00:00 GMT"}, [2]string{"Server", "openstreetmap-cgimap"})
	case 2:
		h = append(h, [2]string{"Content-Type", "text/xml"}, [2]string{"Cache-Control", "private, max-age=0, must-revalidate"})
	case 3:
		h = append(h, [2]string{"Content-Type", "application/xml"}, [2]string{"Date", "Sat, 03 Oct 2026 10:00:00 GMT"}, [2]string{"Vary", "Accept-Encoding"})
	}
	switch retryAfterVariant(c) {
	case 1:
		retryAfter = "0"
	case 2:
		retryAfter = strconv.Itoa(1 + int(kit.Mix(a.salt+uint64(idx))%10))
	case 3:
		retryAfter = []string{"11", "120", "3600"}[idx/3%3]
	case 4:
		retryAfter = "Sat, 03 Oct 2026 10:05:00 GMT"
	}
	if retryAfter != "" {
		h = append(h, [2]string{"Retry-After", retryAfter})
	}
	return h, retryAfter
}

// inBubble: cells that involve the clock run on the fake clock: a limiter, or a Retry-After answer (a client
// that chose to sit the delay out must not make the check sleep for real).
func inBubble(c c20cell) bool { return c.lim != limNone || retryAfterVariant(c) != 0 }

// execCell performs the call of one table cell. For limiter modes it must run inside a bubble.
func execCell(root context.Context, idx int, args [][]*apiArgs) *cellRun {
	c := cellOf(idx)
	ep := endpoints[c.ep]
	a := args[c.ep][(c.st*5+c.cv*3+c.lim+c.base+c.form)%argSets]
	cr := &cellRun{cell: c, idx: idx, ep: ep, a: a}
	clock := new(int)
	st := apiStatuses[c.st]
	body, want, own := buildBody(ep, a, c.cv)
	cr.want, cr.own = want, own
	fullBody := body
	if st != 200 && c.cv == 0 {
		body = errorBodies[idx/7%len(errorBodies)] // an error answer is normally plain text; the other variants keep a full document to expose partial data
	}
	cr.srv = &apiServer{status: st, body: body, clock: clock}
	cr.srv.headers, cr.retryAfter = cellHeaders(c, idx, a)
	if cr.retryAfter != "" {
		// by the time a client could come back the throttle is over: a second request would get the document
		cr.srv.nextStatus, cr.srv.nextBody = 200, fullBody
	}
	client := &http.Client{Transport: cr.srv}
	if c.base == 1 {
		cr.base = customBaseOf(c)
	}
	if c.lim != limNone {
		cr.d = time.Duration(1+kit.Mix(a.salt+uint64(idx))%5000) * time.Millisecond
		cr.lim = &simLimiter{mode: c.lim, d: cr.d, clock: clock}
		if c.lim == limCancel {
			cr.lim.d = time.Hour
		}
	}
	ctx, cancel := context.WithCancel(context.WithValue(root, ctxKey{}, idx))
	defer cancel()
	done := make(chan struct{})
	if c.lim == limCancel {
		go func() {
			defer close(done)
			time.Sleep(cr.d)
			cancel()
		}()
	} else {
		close(done)
	}

	var ds *osmapi.Datasource
	// DefaultDatasource is process-global: whatever a cell changes is put back when the cell ends, also on a panic
	dd := osmapi.DefaultDatasource
	oldL, oldB, oldC := dd.Limiter, dd.BaseURL, dd.Client
	defer func() { dd.Limiter, dd.BaseURL, dd.Client = oldL, oldB, oldC }()
	switch c.form {
	case formMethod:
		ds = &osmapi.Datasource{BaseURL: cr.base, Client: client}
		if cr.lim != nil {
			ds.Limiter = cr.lim
		}
	case formNilClient:
		// the datasource has a limiter and a base URL of its own but no client: requests go through the
		// default datasource's client, which is the simulated transport for the duration of this call
		ds = &osmapi.Datasource{BaseURL: cr.base}
		if cr.lim != nil {
			ds.Limiter = cr.lim
		}
		dd.Client = client
		dd.Limiter = nil
	case formPackage:
		dd.Client = client
		dd.Limiter = nil
		if cr.lim != nil {
			dd.Limiter = cr.lim
		}
		if c.base == 1 {
			dd.BaseURL = cr.base
		} else if idx%3 == 0 {
			dd.BaseURL = "" // the documented fallback to the package constant
		}
	}
	func() {
		defer func() {
			if r := recover(); r != nil {
				cr.crash = fmt.Sprint(r)
			}
		}()
		cr.res = ep.call(ctx, ds, a)
	}()
	cancel()
	<-done
	return cr
}

func canonQuery(q url.Values) []string {
	var out []string
	for k, vs := range q {
		for _, v := range vs {
			out = append(out, k+"="+v)
		}
	}
	sort.Strings(out)
	return out
}

func sameIDMultiset(a, b string) bool {
	x, y := strings.Split(a, ","), strings.Split(b, ",")
	sort.Strings(x)
	sort.Strings(y)
	return strings.Join(x, ",") == strings.Join(y, ",")
}

// sameBBox compares on the grid of OSM coordinates (1e-7 degrees).
func sameBBox(got, want string) (same bool, rounded bool) {
	g, w := strings.Split(got, ","), strings.Split(want, ",")
	if len(g) != 4 || len(w) != 4 {
		return false, false
	}
	same, rounded = true, true
	for i := range g {
		gf, err1 := strconv.ParseFloat(g[i], 64)
		wf, err2 := strconv.ParseFloat(w[i], 64)
		if err1 != nil || err2 != nil {
			return false, false
		}
		if math.Round(gf*1e7) != math.Round(wf*1e7) {
			same = false
			if math.Abs(gf-wf) > 0.5000001e-6 {
				rounded = false
			}
		}
	}
	return same, rounded && !same
}

// judgeCell applies the oracles of C20 to one executed cell.
func judgeCell(o *kit.Outcome, cr *cellRun) (violated bool) {
	c, ep, a := cr.cell, cr.ep, cr.a
	st := apiStatuses[c.st]
	form := formName[c.form]
	where := fmt.Sprintf("[[cell=%d]] %s (%s), status %d, response with %s elements, %s, base URL %q, args %v", cr.idx, ep.name, form, st, countVariants[c.cv].name, limName[c.lim], cr.base, a.describe(ep))
	if cr.retryAfter != "" {
		where += fmt.Sprintf(", answer carries Retry-After: %s", cr.retryAfter)
	}
	viol := func(class, f string, x ...interface{}) {
		violated = true
		for _, v := range o.Violations {
			if v.Class == class {
				o.Probe("further-violating-cells")
				return
			}
		}
		o.Violate(class, "%s: %s", where, fmt.Sprintf(f, x...))
	}
	waitCount := func(n int) {
		if n == 0 {
			viol("C20/limiter-not-waited-on/"+ep.name, "the datasource has a Limiter but Wait was never called")
		} else {
			viol("C20/limiter-wait-count/"+ep.name, "Wait was called %d times, want once", n)
		}
	}
	if cr.crash != "" {
		viol("C20/crash/"+ep.name, "panic in the calling goroutine: %s", cr.crash)
		return
	}
	res := cr.res
	reqs := cr.srv.reqs

	// invalid option: documented to be rejected before anything is sent
	if a.badLimit && ep.notesOpt {
		if res.err == nil || len(reqs) != 0 || res.nonNil {
			viol("C20/invalid-limit-option-accepted/"+ep.name, "a limit outside [1,10000] must be rejected without a request: err=%v requests=%d", res.err, len(reqs))
		}
		o.Probe("invalid-notes-limit-rejected")
		return
	}

	// limiter refused or the context ended while waiting: no request at all, the limiter's error comes back
	if c.lim == limFail || c.lim == limCancel {
		name := []string{"", "", "limiter-refused", "ctx-cancelled-in-limiter"}[c.lim]
		o.Fault(name)
		if cr.lim.calls != 1 {
			waitCount(cr.lim.calls)
		}
		if len(reqs) != 0 {
			viol("C20/request-after-"+name+"/"+ep.name, "%d request(s) reached the server although Wait returned %v: %s", len(reqs), cr.lim.returned, reqs[0].url)
		}
		wantErr := errLimiter
		if c.lim == limCancel {
			wantErr = context.Canceled
		}
		if res.err == nil || !errors.Is(res.err, wantErr) {
			viol("C20/wrong-error-after-"+name+"/"+ep.name, "call returned error %v, want the limiter's %v", res.err, wantErr)
		}
		if res.nonNil {
			viol("C20/data-with-error/"+ep.name, "a value was returned although the limiter did not grant the request")
		}
		if cr.lim.calls > 0 && !cr.lim.ctxOK {
			viol("C20/limiter-without-caller-context/"+ep.name, "Wait did not receive the caller's context")
		}
		if c.lim == limCancel && cr.lim.calls > 0 && cr.lim.end-cr.lim.start != int64(cr.d) {
			viol("C20/limiter-wait-not-ended-by-cancel/"+ep.name, "Wait returned %v after it started although the caller's context was cancelled after %v", time.Duration(cr.lim.end-cr.lim.start), cr.d)
		}
		return
	}

	// exactly one GET
	if len(reqs) == 0 {
		viol("C20/no-request-issued/"+ep.name, "no request reached the server (err=%v)", res.err)
		return
	}
	if len(reqs) != 1 {
		u := ""
		for _, r := range reqs {
			u += " " + r.url
		}
		waits := 0
		if cr.lim != nil {
			waits = cr.lim.calls
		}
		viol("C20/request-count/"+ep.name, "%d requests, want exactly one:%s (limiter waits: %d, err=%v, value returned: %v)", len(reqs), u, waits, res.err, res.nonNil)
		return
	}
	rq := reqs[0]
	if rq.method != "GET" {
		viol("C20/wrong-method/"+ep.name, "method %s", rq.method)
	}
	if rq.ctxOK {
		o.Probe("request-carried-the-callers-context")
	}
	if strings.Contains(cr.base, "%") {
		o.Probe("base-url-with-percent-escapes")
	}
	if cr.retryAfter != "" {
		o.Probe("retry-after-header-served")
		if len(cr.retryAfter) <= 2 {
			o.Probe("retry-after-of-at-most-10-seconds-served")
		}
	}
	if c.form == formNilClient {
		o.Probe("request-through-inherited-default-client")
		if c.lim == limGrant && cr.lim.calls == 1 {
			o.Probe("limiter-waited-with-inherited-client")
		}
	}
	// limiter before the request, on the simulated clock
	if c.lim == limGrant {
		o.Fault("limiter-delayed")
		switch {
		case cr.lim.calls != 1:
			waitCount(cr.lim.calls)
		case rq.seq < cr.lim.endSeq || rq.t < cr.lim.start+int64(cr.d):
			viol("C20/request-before-limiter-granted/"+ep.name, "the request arrived at simulated +%v, Wait (delay %v) returned at +%v", time.Duration(rq.t-cr.lim.start), cr.d, time.Duration(cr.lim.end-cr.lim.start))
		case !cr.lim.ctxOK:
			viol("C20/limiter-without-caller-context/"+ep.name, "Wait did not receive the caller's context")
		}
	}
	// URL: base, path, query
	wantBase := cr.base
	if wantBase == "" {
		wantBase = "http://api.openstreetmap.org/api/0.6" // the API's address as the library documents its default
	}
	wb, _ := url.Parse(wantBase)
	if rq.scheme != wb.Scheme || rq.host != wb.Host || !strings.HasPrefix(rq.path, wb.EscapedPath()+"/") {
		viol("C20/wrong-base-url/"+ep.name, "request %s is not under base %s", rq.url, wantBase)
	} else if got, want := rq.path[len(wb.EscapedPath()):], ep.path(a); got != want {
		viol("C20/wrong-path/"+ep.name, "request path %q, documented path %q (%s)", got, want, rq.url)
	}
	var wantQ []kv
	if ep.query != nil {
		wantQ = ep.query(a)
	}
	for _, t := range a.ats {
		wantQ = append(wantQ, kv{"at", t.UTC().Format("2006-01-02T15:04:05Z")})
	}
	for _, n := range a.nopts {
		if n.limit {
			wantQ = append(wantQ, kv{"limit", strconv.Itoa(n.val)})
		} else {
			wantQ = append(wantQ, kv{"closed", strconv.Itoa(n.val)})
		}
	}
	gotVals, qerr := url.ParseQuery(rq.rawq)
	if qerr != nil {
		viol("C20/wrong-query/"+ep.name+"/unparsable", "query %q: %v", rq.rawq, qerr)
	} else {
		wantVals := url.Values{}
		for _, p := range wantQ {
			wantVals.Add(p.k, p.v)
		}
		// the id list is a set for the server; the bbox is compared as numbers
		sub := ""
		for _, key := range []string{"nodes", "ways", "relations"} {
			if len(wantVals[key]) == 1 && len(gotVals[key]) == 1 && sameIDMultiset(gotVals.Get(key), wantVals.Get(key)) {
				gotVals.Set(key, wantVals.Get(key))
			}
		}
		if len(wantVals["bbox"]) == 1 && len(gotVals["bbox"]) == 1 {
			same, rounded := sameBBox(gotVals.Get("bbox"), wantVals.Get("bbox"))
			if same {
				gotVals.Set("bbox", wantVals.Get("bbox"))
			} else if rounded {
				sub = "/bbox-rounded-to-6-decimals"
			}
		}
		if g, w := canonQuery(gotVals), canonQuery(wantVals); strings.Join(g, "&") != strings.Join(w, "&") {
			viol("C20/wrong-query/"+ep.name+sub, "query parameters %q, documented %q (%s)", g, w, rq.url)
		}
	}

	// result
	if st != 200 {
		o.Fault("status-" + strconv.Itoa(st))
		var ok bool
		got := fmt.Sprintf("%T", res.err)
		switch st {
		case 404:
			var e1 *osmapi.NotFoundError
			ok = errors.As(res.err, &e1)
		case 403:
			var e2 *osmapi.ForbiddenError
			ok = errors.As(res.err, &e2)
		case 410:
			var e3 *osmapi.GoneError
			ok = errors.As(res.err, &e3)
		case 414:
			var e4 *osmapi.RequestURITooLongError
			ok = errors.As(res.err, &e4)
		default:
			var e *osmapi.UnexpectedStatusCodeError
			is := errors.As(res.err, &e)
			ok = is && e.Code == st
			if is && !ok {
				got = fmt.Sprintf("UnexpectedStatusCodeError{Code:%d}", e.Code)
			}
		}
		if ok && st < 400 {
			o.Probe("non-200-status-below-400-rejected")
		}
		if !ok {
			switch {
			case res.err == nil:
				got = "no-error"
			case strings.HasPrefix(got, "*osmapi."):
				got = strings.TrimPrefix(got, "*osmapi.")
			case !strings.HasPrefix(got, "UnexpectedStatusCodeError{"):
				got = "other-error" // e.g. an XML decoding error: the body was treated as an answer
			}
			viol(fmt.Sprintf("C20/status-%d-mapped-to-%s/%s", st, got, ep.name), "status %d came back as %T %v", st, res.err, res.err)
		}
		var probe osmapi.Datasource
		if nf := probe.NotFound(res.err); nf != (st == 404) {
			viol(fmt.Sprintf("C20/not-found-test-wrong-for-status-%d/%s", st, ep.name), "NotFound(err)=%v for status %d (err %T)", nf, st, res.err)
		}
		if res.nonNil {
			viol("C20/partial-data-on-error/"+ep.name, "status %d but %d element(s) were returned: %v", st, len(res.sigs), firstN(res.sigs, 2))
		}
		return
	}
	o.Probe("status-200-decoded")
	if ep.single {
		if cr.own != 1 {
			if res.err == nil || res.nonNil {
				viol("C20/single-element-call-accepted-wrong-count/"+ep.name, "the response holds %d %s elements; got err=%v value=%v", cr.own, ep.kind, res.err, firstN(res.sigs, 1))
			} else {
				o.Probe("single-element-call-rejected-wrong-count")
			}
			return
		}
	}
	if res.err != nil {
		viol("C20/error-on-status-200/"+ep.name, "status 200 with a well-formed document of %d element(s), got error %v", cr.own, res.err)
		return
	}
	if strings.Join(res.sigs, "\n") != strings.Join(cr.want, "\n") {
		viol("C20/wrong-elements/"+ep.name, "returned %d element(s) %v; the response holds %d: %v", len(res.sigs), firstN(res.sigs, 3), len(cr.want), firstN(cr.want, 3))
	}
	return
}

func firstN(s []string, n int) []string {
	if len(s) > n {
		return append(append([]string(nil), s[:n]...), "…")
	}
	return s
}

// ---------------------------------------------------------------- run function

// runC20 is one (argument draw, slice) run: for every endpoint one set of arguments and one
// response content come from the tape; then the whole table endpoint x call form x status x
// element count x limiter x base URL is enumerated; the Group runs sharing a tape execute
// disjoint slices of it. Cells with a limiter run inside a synctest bubble (fake clock).
func runC20(t *testing.T, r *kit.Run) {
	o := r.Out
	o.Faults = map[string]int{}
	args := make([][]*apiArgs, len(endpoints))
	wl := uint64(0x20)
	for i, ep := range endpoints {
		for k := 0; k < argSets; k++ {
			a := drawArgs(r.Tape, ep)
			args[i] = append(args[i], a)
			wl = kit.Mix(wl ^ kit.HashStr(uint64(i), fmt.Sprint(a.describe(ep), a.salt, a.many)))
		}
	}
	o.Workload = wl
	total := numCells()
	var cells []int
	if pc, ok := r.Param("cell"); ok {
		if int(pc) < total {
			cells = []int{int(pc)}
		}
	} else {
		g := r.Group
		if g < 1 {
			g = 1
		}
		for i := r.Slice; i < total; i += g {
			cells = append(cells, i)
		}
	}
	var bad interface{}
	finish := func(cr *cellRun) {
		o.Evals++
		h := kit.Mix(uint64(cr.idx) + 77)
		for _, rq := range cr.srv.reqs {
			h = kit.HashStr(h, rq.method+" "+rq.url)
		}
		if cr.lim != nil {
			h = kit.Mix(h ^ uint64(cr.lim.calls)<<8 ^ uint64(cr.lim.end-cr.lim.start))
		}
		o.Scheds = append(o.Scheds, h)
		if cr.cell.st != 0 || cr.cell.lim != limNone { // a fault is injected: a non-200 status and/or a limiter event
			o.NonTrivial++
			o.Pairs = append(o.Pairs, kit.Mix(wl^h))
		}
		if judgeCell(o, cr) && bad == nil {
			d := cr.a.describe(cr.ep)
			d["call_form"] = formName[cr.cell.form]
			d["cell"], d["status"], d["limiter"], d["elements"], d["base_url"] = cr.idx, apiStatuses[cr.cell.st], limName[cr.cell.lim], countVariants[cr.cell.cv].name, cr.base
			bad = d
		}
	}
	// cells without a limiter need no clock
	var timed []int
	for _, i := range cells {
		if !inBubble(cellOf(i)) {
			finish(execCell(context.Background(), i, args))
		} else {
			timed = append(timed, i)
		}
	}
	// the others run on the fake clock, a batch per bubble
	const perBubble = 256
	for from := 0; from < len(timed); from += perBubble {
		to := from + perBubble
		if to > len(timed) {
			to = len(timed)
		}
		batch := timed[from:to]
		current := -1
		var done []*cellRun
		res := simu.Run(t, simu.Cfg{Sched: r.Sched, Name: "caller"}, func(sim *simrt.Sim, root context.Context) {
			for _, i := range batch {
				current = i
				done = append(done, execCell(root, i, args))
			}
			current = -1
		})
		for _, cr := range done {
			finish(cr)
		}
		o.SimNanos += res.SimNanos
		if res.Hang != "" || res.CallerPanic != "" {
			c := cellOf(maxInt(current, 0))
			o.Violate("C20/hang/"+endpoints[c.ep].name, "[[cell=%d]] the simulated execution did not finish: %s %s (cell %d, %s, %s)", current, res.Hang, res.CallerPanic, current, endpoints[c.ep].name, limName[c.lim])
		}
	}
	if bad != nil {
		o.Scenario = bad
	} else if len(cells) > 0 {
		c := cellOf(cells[len(cells)/2])
		d := args[c.ep][0].describe(endpoints[c.ep])
		d["cells_in_table"], d["cells_in_this_run"] = total, len(cells)
		o.Scenario = d
	}
}

func maxInt(a, b int) int {
	if a > b {
		return a
	}
	return b
}
