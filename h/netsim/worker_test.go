package netsim

import (
	"testing"

	"h/kit"
)

func TestWorker(t *testing.T) {
	kit.WorkerMain(t, "netsim", map[string]kit.RunFunc{
		"C19": runC19,
		"C20": runC20,
	})
}
