package pbfwire

import (
	"fmt"
	"math"
	"strings"
	"time"

	"github.com/paulmach/osm"

	"h/kit"
)

// HeaderModel is what the header block of a generated file says.
type HeaderModel struct {
	Present  bool
	BBox     *[4]int64 // left, right, top, bottom in nanodegrees
	Required []string
	Optional []string
	Program  *string
	Source   *string
	ReplTS   *int64
	ReplSeq  *int64
	ReplURL  *string
}

// BlockModel describes one data block of a generated file.
type BlockModel struct {
	Offset int // of the block's 4-byte length prefix
	HdrEnd int // offset just after the BlobHeader
	End    int
	Objs   []osm.Object
	Sig    string // which optional parts the block carries
	NonDef bool   // non-default granularity / offsets / date granularity
	Zlib   bool
	// PayloadOff is the file offset of the PrimitiveBlock bytes when the blob is raw, -1 for zlib blobs
	PayloadOff int
}

// File is a generated PBF file with its model.
type File struct {
	Data      []byte
	Header    HeaderModel
	HeaderEnd int
	Blocks    []BlockModel
}

// Objects returns all expected objects in file order.
func (f *File) Objects() []osm.Object {
	var out []osm.Object
	for _, b := range f.Blocks {
		out = append(out, b.Objs...)
	}
	return out
}

// Opts bounds the generator.
type Opts struct {
	MinBlocks, MaxBlocks int
	MaxGroups            int // per block
	MaxElems             int // per group
	Procs                int // decoder count of the run (column toggling is biased to this period)
	PlainNodes           bool
	AlwaysHeader         bool
	HeaderlessOneIn      int // when AlwaysHeader is false: 1 file in N starts with a data block (default 8)
	BigBlockOneIn        int // >0: 1 file in N has one block with a dense group of 8001..9500 nodes (more than the usual 8000 per block)
	MinElems             int // per group (tail blocks for C07 want >= 1)
}

var strPool = []string{"", "a", "highway", "näme", "日本", "x y", "v", "role", "bob", "k=v", "<&>\"'", "é́", "🗺", "outer", "0"}

func rstr(t *kit.Tape) string { return strPool[t.Draw(len(strPool))] }

type strtab struct {
	s   []string
	idx map[string]int
}

func (st *strtab) id(s string) uint64 {
	if i, ok := st.idx[s]; ok {
		return uint64(i)
	}
	st.idx[s] = len(st.s)
	st.s = append(st.s, s)
	return uint64(len(st.s) - 1)
}

func tsFrom(raw, dgran int64) time.Time {
	return time.Unix(0, raw*dgran*int64(time.Millisecond)).UTC()
}

func optI64(t *kit.Tape, vals ...int64) *int64 {
	i := t.Draw(len(vals) + 1)
	if i == 0 {
		return nil
	}
	v := vals[i-1]
	return &v
}

func deref(p *int64, def int64) int64 {
	if p == nil {
		return def
	}
	return *p
}

type shape struct {
	hasInfo   bool
	col       [6]bool
	kv        bool
	wayInfo   [6]bool
	wayHas    bool
	wayLoc    bool
	relHas    bool
	relInfo   [6]bool
	tagsField bool
}

func drawShape(t *kit.Tape) shape {
	var s shape
	s.hasInfo = t.Chance(2, 3)
	for i := range s.col {
		s.col[i] = s.hasInfo && t.Chance(2, 3)
	}
	s.kv = t.Bool()
	s.wayHas = t.Chance(2, 3)
	for i := range s.wayInfo {
		s.wayInfo[i] = s.wayHas && t.Chance(2, 3)
	}
	s.wayLoc = t.Chance(1, 3)
	s.relHas = t.Chance(2, 3)
	for i := range s.relInfo {
		s.relInfo[i] = s.relHas && t.Chance(2, 3)
	}
	s.tagsField = t.Bool()
	return s
}

func (s shape) inverse() shape {
	r := s
	r.hasInfo = !s.hasInfo
	for i := range r.col {
		r.col[i] = r.hasInfo && !s.col[i]
	}
	r.kv = !s.kv
	r.wayHas = !s.wayHas
	for i := range r.wayInfo {
		r.wayInfo[i] = r.wayHas && !s.wayInfo[i]
	}
	r.wayLoc = !s.wayLoc
	r.relHas = !s.relHas
	for i := range r.relInfo {
		r.relInfo[i] = r.relHas && !s.relInfo[i]
	}
	r.tagsField = !s.tagsField
	return r
}

func bstr(b []bool) string {
	var sb strings.Builder
	for _, x := range b {
		if x {
			sb.WriteByte('1')
		} else {
			sb.WriteByte('0')
		}
	}
	return sb.String()
}

// Gen draws a file from the tape.
func Gen(t *kit.Tape, o Opts) *File {
	f := &File{}
	if o.MaxGroups == 0 {
		o.MaxGroups = 3
	}
	if o.MaxElems == 0 {
		o.MaxElems = 6
	}
	if o.Procs < 1 {
		o.Procs = 1
	}
	// header
	if o.HeaderlessOneIn <= 0 {
		o.HeaderlessOneIn = 8
	}
	if o.AlwaysHeader || !t.Chance(1, o.HeaderlessOneIn) {
		f.Header.Present = true
		h := &W{}
		if t.Bool() {
			bb := [4]int64{-t.Int64(180e9), t.Int64(180e9), t.Int64(90e9), -t.Int64(90e9)}
			f.Header.BBox = &bb
			b := &W{}
			b.Varint(1, ZZ(bb[0]))
			b.Varint(2, ZZ(bb[1]))
			b.Varint(3, ZZ(bb[2]))
			b.Varint(4, ZZ(bb[3]))
			h.Bytes(1, b.B)
		}
		for i, feat := range []string{"OsmSchema-V0.6", "DenseNodes", "HistoricalInformation"} {
			if t.Draw(2) == 0 || i == 0 {
				h.Bytes(4, []byte(feat))
				f.Header.Required = append(f.Header.Required, feat)
			}
		}
		for _, feat := range []string{"Sort.Type_then_ID", "Has_Metadata", "LocationsOnWays"} {
			if t.Chance(1, 3) {
				h.Bytes(5, []byte(feat))
				f.Header.Optional = append(f.Header.Optional, feat)
			}
		}
		if t.Bool() {
			s := "prog-" + rstr(t)
			f.Header.Program = &s
			h.Bytes(16, []byte(s))
		}
		if t.Chance(1, 3) {
			s := "src " + rstr(t)
			f.Header.Source = &s
			h.Bytes(17, []byte(s))
		}
		if t.Chance(1, 3) {
			v := t.Int64(2000000000)
			f.Header.ReplTS = &v
			h.Varint(32, uint64(v))
		}
		if t.Chance(1, 3) {
			v := t.Int64(5000000)
			f.Header.ReplSeq = &v
			h.Varint(33, uint64(v))
		}
		if t.Chance(1, 3) {
			s := "https://planet.example/" + rstr(t)
			f.Header.ReplURL = &s
			h.Bytes(34, []byte(s))
		}
		f.Data = append(f.Data, FileBlock("OSMHeader", h.B, t.Bool())...)
	}
	f.HeaderEnd = len(f.Data)

	nb := t.Range(o.MinBlocks, o.MaxBlocks)
	var id int64
	shapes := make([]shape, nb)
	bigAt := -1
	if o.BigBlockOneIn > 0 && nb > 0 && t.Chance(1, o.BigBlockOneIn) {
		bigAt = t.Draw(nb)
	}
	for b := 0; b < nb; b++ {
		sh := drawShape(t)
		if b >= o.Procs && t.Bool() {
			sh = shapes[b-o.Procs].inverse()
		}
		shapes[b] = sh
		bm := genBlock(t, o, sh, &id, b == bigAt)
		bm.Offset += len(f.Data)
		bm.HdrEnd += len(f.Data)
		if bm.PayloadOff >= 0 {
			bm.PayloadOff += len(f.Data)
		}
		f.Data = append(f.Data, bm.bytes...)
		bm.End = len(f.Data)
		f.Blocks = append(f.Blocks, bm.BlockModel)
	}
	return f
}

type genned struct {
	BlockModel
	bytes []byte
}

func genBlock(t *kit.Tape, o Opts, sh shape, nextID *int64, big bool) genned {
	gran := optI64(t, 1, 1000, 7, 100)
	dgran := optI64(t, 1, 60000, 1000)
	latOff := optI64(t, 123456789, -5000, 0)
	lonOff := optI64(t, -987654321, 77, 0)
	useZlib := t.Bool()
	g, dg := deref(gran, 100), deref(dgran, 1000)
	la0, lo0 := deref(latOff, 0), deref(lonOff, 0)
	st := &strtab{idx: map[string]int{}}
	st.id("")
	var bm genned
	bm.Zlib = useZlib
	bm.NonDef = g != 100 || dg != 1000 || la0 != 0 || lo0 != 0
	sig := fmt.Sprintf("g%v%v%v%v z%v", gran != nil, dgran != nil, latOff != nil, lonOff != nil, useZlib)
	var groups [][]byte
	ng := t.Range(0, o.MaxGroups)
	if (o.MinElems > 0 || big) && ng == 0 {
		ng = 1
	}
	for gi := 0; gi < ng; gi++ {
		kinds := 3
		if o.PlainNodes {
			kinds = 4
		}
		kind := t.Draw(kinds)
		n := t.Range(o.MinElems, o.MaxElems)
		sh := sh
		if big && gi == 0 {
			// one dense group with more nodes than the customary 8000 per block
			kind, n, sh = 0, 8001+t.Draw(1500), shape{}
			sig += " BIG"
		}
		switch kind {
		case 0: // dense nodes
			anyTags := sh.kv && t.Bool()
			sig += fmt.Sprintf(" D(i%v c%s kv%v)", sh.hasInfo, bstr(sh.col[:]), sh.kv)
			var ids, lats, lons, tss, css, uids, usids []int64
			var vers, vis, kv []uint64
			var pid, plat, plon, pts, pcs, puid, pusid int64
			for i := 0; i < n; i++ {
				*nextID += 1 + t.Int64(3)
				id := *nextID
				rlat, rlon := t.Int64(2000000)-1000000, t.Int64(2000000)-1000000
				nd := &osm.Node{ID: osm.NodeID(id), Visible: true,
					Lat: 1e-9 * float64(la0+g*rlat), Lon: 1e-9 * float64(lo0+g*rlon)}
				ids = append(ids, id-pid)
				pid = id
				lats = append(lats, rlat-plat)
				plat = rlat
				lons = append(lons, rlon-plon)
				plon = rlon
				if sh.col[0] {
					v := t.Int64(5)
					vers = append(vers, uint64(v))
					nd.Version = int(v)
				}
				if sh.col[1] {
					v := t.Int64(1000000)
					tss = append(tss, v-pts)
					pts = v
					nd.Timestamp = tsFrom(v, dg)
				}
				if sh.col[2] {
					v := t.Int64(100000)
					css = append(css, v-pcs)
					pcs = v
					nd.ChangesetID = osm.ChangesetID(v)
				}
				if sh.col[3] {
					v := t.Int64(1000)
					uids = append(uids, v-puid)
					puid = v
					nd.UserID = osm.UserID(v)
				}
				if sh.col[4] {
					u := rstr(t)
					v := int64(st.id(u))
					usids = append(usids, v-pusid)
					pusid = v
					nd.User = u
				}
				if sh.col[5] {
					b := t.Bool()
					if b {
						vis = append(vis, 0)
					} else {
						vis = append(vis, 1)
					}
					nd.Visible = !b
				}
				if sh.kv {
					if anyTags {
						for k := t.Draw(3); k > 0; k-- {
							a, b := rstr(t)+"k", rstr(t)
							kv = append(kv, st.id(a), st.id(b))
							nd.Tags = append(nd.Tags, osm.Tag{Key: a, Value: b})
						}
					}
					kv = append(kv, 0)
				}
				bm.Objs = append(bm.Objs, nd)
			}
			d := &W{}
			d.Bytes(1, PackedS(ids))
			if sh.hasInfo {
				inf := &W{}
				if sh.col[0] {
					inf.Bytes(1, PackedU(vers))
				}
				if sh.col[1] {
					inf.Bytes(2, PackedS(tss))
				}
				if sh.col[2] {
					inf.Bytes(3, PackedS(css))
				}
				if sh.col[3] {
					inf.Bytes(4, PackedS(uids))
				}
				if sh.col[4] {
					inf.Bytes(5, PackedS(usids))
				}
				if sh.col[5] {
					inf.Bytes(6, PackedU(vis))
				}
				d.Bytes(5, inf.B)
			}
			d.Bytes(8, PackedS(lats))
			d.Bytes(9, PackedS(lons))
			if sh.kv {
				d.Bytes(10, PackedU(kv))
			}
			grp := &W{}
			grp.Bytes(2, d.B)
			groups = append(groups, grp.B)
		case 1: // ways
			grp := &W{}
			sig += fmt.Sprintf(" W(i%v c%s loc%v t%v)", sh.wayHas, bstr(sh.wayInfo[:]), sh.wayLoc, sh.tagsField)
			for i := 0; i < n; i++ {
				*nextID += 1 + t.Int64(3)
				w := &osm.Way{ID: osm.WayID(*nextID), Visible: true}
				m := &W{}
				m.Varint(1, uint64(*nextID))
				nt := 0
				if t.Bool() {
					nt = t.Draw(3)
				}
				var ks, vs []uint64
				for k := 0; k < nt; k++ {
					a, b := rstr(t)+"k", rstr(t)
					ks = append(ks, st.id(a))
					vs = append(vs, st.id(b))
					w.Tags = append(w.Tags, osm.Tag{Key: a, Value: b})
				}
				if nt > 0 || sh.tagsField {
					m.Bytes(2, PackedU(ks))
					m.Bytes(3, PackedU(vs))
				}
				// most ways of a block look alike, one in four deviates: stale per-element state shows between neighbours
				if sh.wayHas != t.Chance(1, 4) {
					inf := &W{}
					if sh.wayInfo[0] {
						v := t.Draw(9)
						inf.Varint(1, uint64(v))
						w.Version = v
					}
					if sh.wayInfo[1] {
						v := t.Int64(1000000)
						inf.Varint(2, uint64(v))
						w.Timestamp = tsFrom(v, dg)
					}
					if sh.wayInfo[2] {
						v := t.Draw(99999)
						inf.Varint(3, uint64(v))
						w.ChangesetID = osm.ChangesetID(v)
					}
					if sh.wayInfo[3] {
						v := t.Draw(999)
						inf.Varint(4, uint64(v))
						w.UserID = osm.UserID(v)
					}
					if sh.wayInfo[4] {
						u := rstr(t)
						inf.Varint(5, st.id(u))
						w.User = u
					}
					if sh.wayInfo[5] {
						b := t.Bool()
						if b {
							inf.Varint(6, 0)
						} else {
							inf.Varint(6, 1)
						}
						w.Visible = !b
					}
					m.Bytes(4, inf.B)
				}
				nr := t.Draw(5)
				wayLoc := sh.wayLoc != t.Chance(1, 4)
				var refs, la, lo []int64
				var pr, pla, plo int64
				for k := 0; k < nr; k++ {
					r := t.Int64(1000) + 1
					refs = append(refs, r-pr)
					pr = r
					wn := osm.WayNode{ID: osm.NodeID(r)}
					if wayLoc {
						rlat, rlon := t.Int64(2000)-1000, t.Int64(2000)-1000
						la = append(la, rlat-pla)
						pla = rlat
						lo = append(lo, rlon-plo)
						plo = rlon
						wn.Lat = 1e-9 * float64(la0+g*rlat)
						wn.Lon = 1e-9 * float64(lo0+g*rlon)
					}
					w.Nodes = append(w.Nodes, wn)
				}
				if nr > 0 || t.Bool() {
					m.Bytes(8, PackedS(refs))
					if wayLoc {
						m.Bytes(9, PackedS(la))
						m.Bytes(10, PackedS(lo))
					}
				}
				grp.Bytes(3, m.B)
				bm.Objs = append(bm.Objs, w)
			}
			groups = append(groups, grp.B)
		case 2: // relations
			grp := &W{}
			sig += fmt.Sprintf(" R(i%v c%s t%v)", sh.relHas, bstr(sh.relInfo[:]), sh.tagsField)
			for i := 0; i < n; i++ {
				*nextID += 1 + t.Int64(3)
				r := &osm.Relation{ID: osm.RelationID(*nextID), Visible: true}
				m := &W{}
				m.Varint(1, uint64(*nextID))
				nt := 0
				if t.Bool() {
					nt = t.Draw(3)
				}
				var ks, vs []uint64
				for k := 0; k < nt; k++ {
					a, b := rstr(t)+"k", rstr(t)
					ks = append(ks, st.id(a))
					vs = append(vs, st.id(b))
					r.Tags = append(r.Tags, osm.Tag{Key: a, Value: b})
				}
				if nt > 0 || sh.tagsField {
					m.Bytes(2, PackedU(ks))
					m.Bytes(3, PackedU(vs))
				}
				if sh.relHas != t.Chance(1, 4) {
					inf := &W{}
					if sh.relInfo[0] {
						v := t.Draw(9)
						inf.Varint(1, uint64(v))
						r.Version = v
					}
					if sh.relInfo[1] {
						v := t.Int64(1000000)
						inf.Varint(2, uint64(v))
						r.Timestamp = tsFrom(v, dg)
					}
					if sh.relInfo[2] {
						v := t.Draw(99999)
						inf.Varint(3, uint64(v))
						r.ChangesetID = osm.ChangesetID(v)
					}
					if sh.relInfo[3] {
						v := t.Draw(999)
						inf.Varint(4, uint64(v))
						r.UserID = osm.UserID(v)
					}
					if sh.relInfo[4] {
						u := rstr(t)
						inf.Varint(5, st.id(u))
						r.User = u
					}
					if sh.relInfo[5] {
						b := t.Bool()
						if b {
							inf.Varint(6, 0)
						} else {
							inf.Varint(6, 1)
						}
						r.Visible = !b
					}
					m.Bytes(4, inf.B)
				}
				nm := t.Draw(4)
				var roles, types []uint64
				var mem []int64
				var pm int64
				for k := 0; k < nm; k++ {
					ro := rstr(t)
					ty := t.Draw(3)
					ref := t.Int64(5000) + 1
					roles = append(roles, st.id(ro))
					types = append(types, uint64(ty))
					mem = append(mem, ref-pm)
					pm = ref
					r.Members = append(r.Members, osm.Member{Type: []osm.Type{osm.TypeNode, osm.TypeWay, osm.TypeRelation}[ty], Ref: ref, Role: ro})
				}
				if nm > 0 || t.Bool() {
					m.Bytes(8, PackedU(roles))
					m.Bytes(9, PackedS(mem))
					m.Bytes(10, PackedU(types))
				}
				grp.Bytes(4, m.B)
				bm.Objs = append(bm.Objs, r)
			}
			groups = append(groups, grp.B)
		case 3: // plain (non-dense) nodes: legal PBF
			grp := &W{}
			sig += fmt.Sprintf(" N(i%v c%s)", sh.wayHas, bstr(sh.wayInfo[:]))
			for i := 0; i < n; i++ {
				*nextID += 1 + t.Int64(3)
				rlat, rlon := t.Int64(2000000)-1000000, t.Int64(2000000)-1000000
				nd := &osm.Node{ID: osm.NodeID(*nextID), Visible: true,
					Lat: 1e-9 * float64(la0+g*rlat), Lon: 1e-9 * float64(lo0+g*rlon)}
				m := &W{}
				m.Varint(1, ZZ(*nextID))
				var ks, vs []uint64
				for k := t.Draw(3); k > 0; k-- {
					a, b := rstr(t)+"k", rstr(t)
					ks = append(ks, st.id(a))
					vs = append(vs, st.id(b))
					nd.Tags = append(nd.Tags, osm.Tag{Key: a, Value: b})
				}
				if len(ks) > 0 {
					m.Bytes(2, PackedU(ks))
					m.Bytes(3, PackedU(vs))
				}
				if sh.wayHas {
					inf := &W{}
					if sh.wayInfo[0] {
						v := t.Draw(9)
						inf.Varint(1, uint64(v))
						nd.Version = v
					}
					if sh.wayInfo[1] {
						ts := t.Int64(1000000)
						inf.Varint(2, uint64(ts))
						nd.Timestamp = tsFrom(ts, dg)
					}
					if sh.wayInfo[2] {
						v := t.Draw(99999)
						inf.Varint(3, uint64(v))
						nd.ChangesetID = osm.ChangesetID(v)
					}
					if sh.wayInfo[3] {
						v := t.Draw(999)
						inf.Varint(4, uint64(v))
						nd.UserID = osm.UserID(v)
					}
					if sh.wayInfo[4] {
						u := rstr(t)
						inf.Varint(5, st.id(u))
						nd.User = u
					}
					if sh.wayInfo[5] {
						b := t.Bool()
						if b {
							inf.Varint(6, 0)
						} else {
							inf.Varint(6, 1)
						}
						nd.Visible = !b
					}
					m.Bytes(4, inf.B)
				}
				m.Varint(8, ZZ(rlat))
				m.Varint(9, ZZ(rlon))
				grp.Bytes(1, m.B)
				bm.Objs = append(bm.Objs, nd)
			}
			groups = append(groups, grp.B)
		}
	}
	// a changeset group must be ignored
	if t.Chance(1, 10) {
		cs := &W{}
		cs.Varint(1, 4242)
		grp := &W{}
		grp.Bytes(5, cs.B)
		groups = append(groups, grp.B)
		sig += " C"
	}
	stw := &W{}
	for _, s := range st.s {
		stw.Bytes(1, []byte(s))
	}
	pb := &W{}
	// protobuf allows any field order; a low-rate variation puts the block parameters first
	paramsFirst := t.Chance(1, 8)
	params := func() {
		if gran != nil {
			pb.Varint(17, uint64(*gran))
		}
		if dgran != nil {
			pb.Varint(18, uint64(*dgran))
		}
		if latOff != nil {
			pb.Varint(19, uint64(*latOff))
		}
		if lonOff != nil {
			pb.Varint(20, uint64(*lonOff))
		}
	}
	if paramsFirst {
		params()
	}
	pb.Bytes(1, stw.B)
	for _, g := range groups {
		pb.Bytes(2, g)
	}
	if !paramsFirst {
		params()
	}
	if t.Chance(1, 10) {
		pb.Varint(99, 7) // unknown field
		sig += " U"
	}
	var index []byte
	if t.Chance(1, 10) {
		index = []byte("idx")
	}
	blob := Blob(pb.B, useZlib)
	bm.bytes = RawFileBlock("OSMData", blob, index)
	bm.HdrEnd = len(bm.bytes) - len(blob)
	bm.PayloadOff = -1
	if !useZlib {
		bm.PayloadOff = len(bm.bytes) - len(pb.B)
	}
	bm.Sig = sig
	return bm
}

// EqObj compares a delivered object with the model's, field by field; "" means equal.
func EqObj(want, got osm.Object) string {
	eqTags := func(a, b osm.Tags) bool {
		if len(a) != len(b) {
			return false
		}
		for i := range a {
			if a[i] != b[i] {
				return false
			}
		}
		return true
	}
	switch x := want.(type) {
	case *osm.Node:
		y, ok := got.(*osm.Node)
		if !ok {
			return fmt.Sprintf("type: want node %d got %T %v", x.ID, got, got.ObjectID())
		}
		if x.ID != y.ID || x.Version != y.Version || !x.Timestamp.Equal(y.Timestamp) || x.ChangesetID != y.ChangesetID || x.UserID != y.UserID || x.User != y.User || x.Visible != y.Visible {
			return fmt.Sprintf("node metadata: want %+v got %+v", *x, *y)
		}
		if math.Abs(x.Lat-y.Lat) > 1e-10 || math.Abs(x.Lon-y.Lon) > 1e-10 {
			return fmt.Sprintf("node %d coordinates: want %v,%v got %v,%v", x.ID, x.Lat, x.Lon, y.Lat, y.Lon)
		}
		if !eqTags(x.Tags, y.Tags) {
			return fmt.Sprintf("node %d tags: want %v got %v", x.ID, x.Tags, y.Tags)
		}
	case *osm.Way:
		y, ok := got.(*osm.Way)
		if !ok {
			return fmt.Sprintf("type: want way %d got %T %v", x.ID, got, got.ObjectID())
		}
		if x.ID != y.ID || x.Version != y.Version || !x.Timestamp.Equal(y.Timestamp) || x.ChangesetID != y.ChangesetID || x.UserID != y.UserID || x.User != y.User || x.Visible != y.Visible {
			return fmt.Sprintf("way metadata: want %+v got %+v", *x, *y)
		}
		if !eqTags(x.Tags, y.Tags) {
			return fmt.Sprintf("way %d tags: want %v got %v", x.ID, x.Tags, y.Tags)
		}
		if len(x.Nodes) != len(y.Nodes) {
			return fmt.Sprintf("way %d nodes: want %v got %v", x.ID, x.Nodes, y.Nodes)
		}
		for i := range x.Nodes {
			a, b := x.Nodes[i], y.Nodes[i]
			if a.ID != b.ID || a.Version != b.Version || a.ChangesetID != b.ChangesetID || math.Abs(a.Lat-b.Lat) > 1e-10 || math.Abs(a.Lon-b.Lon) > 1e-10 {
				return fmt.Sprintf("way %d node %d: want %+v got %+v", x.ID, i, a, b)
			}
		}
	case *osm.Relation:
		y, ok := got.(*osm.Relation)
		if !ok {
			return fmt.Sprintf("type: want relation %d got %T %v", x.ID, got, got.ObjectID())
		}
		if x.ID != y.ID || x.Version != y.Version || !x.Timestamp.Equal(y.Timestamp) || x.ChangesetID != y.ChangesetID || x.UserID != y.UserID || x.User != y.User || x.Visible != y.Visible {
			return fmt.Sprintf("relation metadata: want %+v got %+v", *x, *y)
		}
		if !eqTags(x.Tags, y.Tags) {
			return fmt.Sprintf("relation %d tags: want %v got %v", x.ID, x.Tags, y.Tags)
		}
		if len(x.Members) != len(y.Members) {
			return fmt.Sprintf("relation %d members: want %v got %v", x.ID, x.Members, y.Members)
		}
		for i := range x.Members {
			a, b := x.Members[i], y.Members[i]
			if a.Type != b.Type || a.Ref != b.Ref || a.Role != b.Role || a.Version != b.Version || a.Lat != b.Lat || a.Lon != b.Lon {
				return fmt.Sprintf("relation %d member %d: want %+v got %+v", x.ID, i, a, b)
			}
		}
	default:
		return fmt.Sprintf("unexpected model object %T", want)
	}
	return ""
}

// Snapshot is a canonical deep rendering of an object (immutability checks).
func Snapshot(o osm.Object) string {
	switch x := o.(type) {
	case *osm.Node:
		return fmt.Sprintf("N%+v", *x)
	case *osm.Way:
		return fmt.Sprintf("W%+v", *x)
	case *osm.Relation:
		return fmt.Sprintf("R%+v", *x)
	}
	return fmt.Sprintf("%T%+v", o, o)
}
