// Package pbfwire is an independent OSM PBF writer: a hand-written protobuf wire encoder
// plus a tape-driven generator that produces a file together with the model of what a
// correct reader must deliver for it. Nothing here uses the repository's generated
// protobuf code or its decoder, and it can emit what those cannot (absent columns, wrong
// lengths, out-of-range indexes).
package pbfwire

import (
	"bytes"
	"compress/zlib"
	"encoding/binary"
)

// W is a protobuf wire writer.
type W struct{ B []byte }

func (w *W) RawVarint(v uint64) {
	for v >= 0x80 {
		w.B = append(w.B, byte(v)|0x80)
		v >>= 7
	}
	w.B = append(w.B, byte(v))
}

// ZZ is zigzag encoding.
func ZZ(v int64) uint64 { return uint64((v << 1) ^ (v >> 63)) }

func (w *W) tag(f, wt int)          { w.RawVarint(uint64(f<<3 | wt)) }
func (w *W) Varint(f int, v uint64) { w.tag(f, 0); w.RawVarint(v) }
func (w *W) Bytes(f int, b []byte) {
	w.tag(f, 2)
	w.RawVarint(uint64(len(b)))
	w.B = append(w.B, b...)
}
func (w *W) Fixed32(f int, v uint32) {
	w.tag(f, 5)
	w.B = append(w.B, byte(v), byte(v>>8), byte(v>>16), byte(v>>24))
}

// PackedS packs zigzag varints.
func PackedS(vs []int64) []byte {
	w := &W{}
	for _, v := range vs {
		w.RawVarint(ZZ(v))
	}
	return w.B
}

// PackedU packs plain varints.
func PackedU(vs []uint64) []byte {
	w := &W{}
	for _, v := range vs {
		w.RawVarint(v)
	}
	return w.B
}

// Deflate returns the zlib stream of payload.
func Deflate(payload []byte) []byte {
	var zb bytes.Buffer
	zw := zlib.NewWriter(&zb)
	zw.Write(payload)
	zw.Close()
	return zb.Bytes()
}

// Blob builds a Blob message: raw or zlib.
func Blob(payload []byte, useZlib bool) []byte {
	blob := &W{}
	if useZlib {
		blob.Varint(2, uint64(len(payload)))
		blob.Bytes(3, Deflate(payload))
	} else {
		blob.Bytes(1, payload)
	}
	return blob.B
}

// RawFileBlock frames blob bytes as a file block of the given type.
func RawFileBlock(typ string, blob []byte, indexdata []byte) []byte {
	hdr := &W{}
	hdr.Bytes(1, []byte(typ))
	if indexdata != nil {
		hdr.Bytes(2, indexdata)
	}
	hdr.Varint(3, uint64(len(blob)))
	return Frame(hdr.B, blob)
}

// Frame prepends the 4-byte big-endian BlobHeader length.
func Frame(hdr, blob []byte) []byte {
	out := make([]byte, 4, 4+len(hdr)+len(blob))
	binary.BigEndian.PutUint32(out, uint32(len(hdr)))
	out = append(out, hdr...)
	return append(out, blob...)
}

// FileBlock frames a payload.
func FileBlock(typ string, payload []byte, useZlib bool) []byte {
	return RawFileBlock(typ, Blob(payload, useZlib), nil)
}
