// Package simu runs one simulated execution inside a testing/synctest bubble with the
// simrt runtime started, and collects what the engines need afterwards.
package simu

import (
	"context"
	"fmt"
	"hash/fnv"
	"strings"
	"sync/atomic"
	"testing"
	"testing/synctest"
	"time"

	"github.com/paulmach/osm/simrt"

	"h/kit"
)

// Cfg configures one execution.
type Cfg struct {
	Sched        kit.SchedCfg
	Name         string // name of the root (calling) goroutine, default "caller"
	DefaultMean  int64
	Means        []simrt.Mean
	SpeedClasses []int64
	SpeedSeed    uint64
	Stalls       []simrt.Stall
	MaxYields    int64 // per goroutine
	KeepTrace    bool
}

// Result is what an execution leaves behind.
type Result struct {
	BodyDone    bool   // the body returned (a Hang with BodyDone is a goroutine left blocked for good)
	Hang        string // non-empty: the bubble deadlocked (all goroutines durably blocked, no timer)
	Blocked     []string
	Crashes     []simrt.Crash
	CallerPanic string
	Aborted     string
	Live        []string // library goroutines alive when the body returned
	SimNanos    int64
	Yields      int64
	SchedHash   uint64
	States      []uint64
	Trace       []string
	Notes       []simrt.Event // simrt.Note observations in simulated-time order
	Goroutines  []string
}

// Run executes body inside a fresh bubble. body runs on the root goroutine, registered
// with simrt under cfg.Name. When simrt aborts the run (a library goroutine panicked, or the step
// budget ran out) library goroutines unwind at their next yield; the body must poll sim.Aborted()
// in its loops. root is cancelled only after the body returned.
func Run(t *testing.T, cfg Cfg, body func(sim *simrt.Sim, root context.Context)) (res Result) {
	if cfg.Name == "" {
		cfg.Name = "caller"
	}
	if cfg.MaxYields == 0 {
		cfg.MaxYields = 200000
	}
	var sim *simrt.Sim
	defer func() {
		if r := recover(); r != nil {
			msg := fmt.Sprint(r)
			if !strings.Contains(msg, "deadlock") {
				panic(r)
			}
			res.Hang = msg
			atomic.AddInt64(&kit.LeakedBubbles, 1)
			if sim != nil {
				res.Blocked = sim.Blocked()
				res.Crashes = sim.Crashes()
				res.Aborted = sim.Aborted()
			}
			simrt.Stop()
		}
	}()
	synctest.Test(t, func(t *testing.T) {
		root, cancel := context.WithCancel(context.Background())
		defer cancel()
		sim = &simrt.Sim{Seed: cfg.Sched.Seed, Flat: cfg.Sched.Flat, FlatG: cfg.Sched.FlatG, DefaultMean: cfg.DefaultMean,
			Means: cfg.Means, SpeedClasses: cfg.SpeedClasses, SpeedSeed: cfg.SpeedSeed, Stalls: cfg.Stalls, MaxYields: cfg.MaxYields}
		simrt.Start(sim)
		defer simrt.Stop()
		simrt.Register(cfg.Name)
		t0 := time.Now()
		func() {
			defer func() {
				if r := recover(); r != nil {
					res.CallerPanic = fmt.Sprint(r)
					sim.Abort("caller-panic")
				}
			}()
			body(sim, root)
		}()
		res.BodyDone = true
		res.Live = sim.LiveLib()
		// let whatever is still running wind down (nothing here is asserted; C07 checks Live itself)
		cancel()
		time.Sleep(time.Hour)
		res.SimNanos = int64(time.Since(t0)) - int64(time.Hour)
		res.Crashes = sim.Crashes()
		res.Aborted = sim.Aborted()
		res.Goroutines = sim.Goroutines()
		res.Yields = sim.TotalYields()
		evs := sim.Merged()
		h := fnv.New64a()
		st := map[uint64]bool{}
		for _, e := range evs {
			if e.Cap == -2 {
				res.Notes = append(res.Notes, e)
				continue
			}
			fmt.Fprintf(h, "%s|%s\n", e.G, e.Site)
			if e.Len >= 0 {
				sh := fnv.New64a()
				fmt.Fprintf(sh, "%s|%d|%d", e.Site, e.Len, e.Cap)
				st[sh.Sum64()] = true
			}
		}
		res.SchedHash = h.Sum64()
		for k := range st {
			res.States = append(res.States, k)
		}
		if cfg.KeepTrace {
			for _, e := range evs {
				if e.Cap == -2 {
					continue
				}
				if e.Len >= 0 {
					res.Trace = append(res.Trace, fmt.Sprintf("%d %s %s len=%d/%d", e.T-t0.UnixNano(), e.G, e.Site, e.Len, e.Cap))
				} else {
					res.Trace = append(res.Trace, fmt.Sprintf("%d %s %s", e.T-t0.UnixNano(), e.G, e.Site))
				}
			}
		}
	})
	return
}
