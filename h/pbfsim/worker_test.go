package pbfsim

import (
	"testing"

	"h/kit"
)

func TestWorker(t *testing.T) {
	kit.WorkerMain(t, "pbfsim", map[string]kit.RunFunc{
		"C06": runC06,
	})
}
