package pbfsim

import (
	"testing"

	"h/kit"
)

func TestWorker(t *testing.T) {
	kit.WorkerMain(t, "pbfsim", map[string]kit.RunFunc{
		"C01": runC01,
		"C02": runC02,
		"C06": runC06,
		"C07": runC07,
		"C08": runC08,
		"C09": runC09,
	})
}
