package pbfsim

import (
	"fmt"
	"io"
	"math"
	"reflect"
	"strings"
	"testing"
	"time"

	"github.com/paulmach/osm"
	"github.com/paulmach/osm/osmpbf"
	"github.com/paulmach/osm/simrt"

	"h/kit"
	"h/pbfwire"
)

var procChoices = []int{1, 2, 3, 4, 5, 7, 10, 11, 16, 32}

func drawProcs(t *kit.Tape) int { return procChoices[t.Draw(len(procChoices))] }

// drawProcsAll covers 1..12, 16, 32
func drawProcsAll(t *kit.Tape) int {
	i := t.Draw(14)
	switch i {
	case 12:
		return 16
	case 13:
		return 32
	}
	return i + 1
}

func fileScenario(f *pbfwire.File, extra map[string]interface{}) map[string]interface{} {
	m := map[string]interface{}{"file_bytes": len(f.Data), "header": f.Header.Present, "blocks": len(f.Blocks), "objects": len(f.Objects())}
	var sigs []string
	for i, b := range f.Blocks {
		if i < 6 {
			sigs = append(sigs, fmt.Sprintf("%d objs %s", len(b.Objs), b.Sig))
		}
	}
	m["first_block_signatures"] = sigs
	for k, v := range extra {
		m[k] = v
	}
	return m
}

func checkProcess(o *kit.Outcome, class string, res *scanRes, desc string) bool {
	if sym, msg := symptom(res); sym != "" {
		o.Violate(class+"/"+sym, "%s: %s", desc, msg)
		o.Trace = res.sim.Trace
		return false
	}
	if !res.closeOK {
		o.Violate(class+"/close-did-not-return", "%s", desc)
		return false
	}
	return true
}

// ------------------------------------------------------------------ C01

func headerMismatch(m *pbfwire.HeaderModel, h *osmpbf.Header) string {
	if !m.Present {
		return ""
	}
	if h == nil {
		return "Header() returned nil for a file with a header block"
	}
	if (m.BBox == nil) != (h.Bounds == nil) {
		return fmt.Sprintf("bounds presence: model %v got %v", m.BBox != nil, h.Bounds)
	}
	if m.BBox != nil {
		want := [4]float64{1e-9 * float64(m.BBox[0]), 1e-9 * float64(m.BBox[1]), 1e-9 * float64(m.BBox[2]), 1e-9 * float64(m.BBox[3])}
		got := [4]float64{h.Bounds.MinLon, h.Bounds.MaxLon, h.Bounds.MaxLat, h.Bounds.MinLat}
		for i := range want {
			if math.Abs(want[i]-got[i]) > 1e-10 {
				return fmt.Sprintf("bounds (left,right,top,bottom): want %v got %v", want, got)
			}
		}
	}
	eq := func(a, b []string) bool {
		if len(a) != len(b) {
			return false
		}
		for i := range a {
			if a[i] != b[i] {
				return false
			}
		}
		return true
	}
	if !eq(m.Required, h.RequiredFeatures) {
		return fmt.Sprintf("required features: want %v got %v", m.Required, h.RequiredFeatures)
	}
	if !eq(m.Optional, h.OptionalFeatures) {
		return fmt.Sprintf("optional features: want %v got %v", m.Optional, h.OptionalFeatures)
	}
	ds := func(p *string) string {
		if p == nil {
			return ""
		}
		return *p
	}
	if ds(m.Program) != h.WritingProgram {
		return fmt.Sprintf("writing program: want %q got %q", ds(m.Program), h.WritingProgram)
	}
	if ds(m.Source) != h.Source {
		return fmt.Sprintf("source: want %q got %q", ds(m.Source), h.Source)
	}
	if ds(m.ReplURL) != h.ReplicationBaseURL {
		return fmt.Sprintf("replication base url: want %q got %q", ds(m.ReplURL), h.ReplicationBaseURL)
	}
	var seq uint64
	if m.ReplSeq != nil {
		seq = uint64(*m.ReplSeq)
	}
	if seq != h.ReplicationSeqNum {
		return fmt.Sprintf("replication sequence: want %d got %d", seq, h.ReplicationSeqNum)
	}
	if m.ReplTS != nil {
		if !h.ReplicationTimestamp.Equal(time.Unix(*m.ReplTS, 0)) {
			return fmt.Sprintf("replication timestamp: want %v got %v", time.Unix(*m.ReplTS, 0).UTC(), h.ReplicationTimestamp)
		}
	} else if !h.ReplicationTimestamp.IsZero() {
		return fmt.Sprintf("replication timestamp: want zero got %v", h.ReplicationTimestamp)
	}
	return ""
}

func kindOf(o osm.Object) string {
	switch o.(type) {
	case *osm.Node:
		return "node"
	case *osm.Way:
		return "way"
	case *osm.Relation:
		return "relation"
	}
	return "other"
}

// sameWorkerVariation: two blocks decoded by the same worker differ in their optional parts
func sameWorkerVariation(f *pbfwire.File, procs int) bool {
	for i := range f.Blocks {
		if j := i + procs; j < len(f.Blocks) && f.Blocks[i].Sig != f.Blocks[j].Sig {
			return true
		}
	}
	return false
}

func runC01(t *testing.T, r *kit.Run) {
	procs := drawProcs(r.Tape)
	plain := r.Tape.Chance(1, 8)
	maxB := 12
	if r.Tape.Chance(1, 10) {
		maxB = 40
	}
	f := pbfwire.Gen(r.Tape, pbfwire.Opts{MinBlocks: 0, MaxBlocks: maxB, Procs: procs, PlainNodes: plain, BigBlockOneIn: 24})
	wl := kit.HashStr(2, string(f.Data))
	r.Out.Workload = wl
	hasPlain := false
	for _, b := range f.Blocks {
		if strings.Contains(b.Sig, " N") {
			hasPlain = true
		}
	}
	prefix := "C01"
	if hasPlain {
		prefix = "C01/plain-node-group"
		r.Out.Probe("file-with-plain-node-group")
	}
	c01cfg := scanCfg{data: f.Data, procs: procs, cut: -1, errAt: -1, sched: r.Sched, tape: r.Tape, header: true, maxObj: len(f.Objects()) + 20, trace: r.Replay}
	if r.Tape.Chance(1, 3) && !hasBig(f) {
		// accept-all filter callbacks that are delay points: a decoder can then be overtaken in the middle of a block
		yieldingFilters(&c01cfg)
		r.Out.Probe("decoders-interleaved-mid-block")
	}
	res := runScan(t, c01cfg)
	nonDef := false
	for _, b := range f.Blocks {
		nonDef = nonDef || b.NonDef
	}
	nontrivial := sameWorkerVariation(f, procs) || nonDef
	addSim(r.Out, &res, wl^uint64(procs), nontrivial)
	if sameWorkerVariation(f, procs) {
		r.Out.Probe("optional-parts-differ-on-one-worker")
	}
	if nonDef {
		r.Out.Probe("non-default-granularity-or-offset")
	}
	if procs > len(f.Blocks) {
		r.Out.Probe("more-decoders-than-blocks")
	}
	if procs > 10 {
		r.Out.Probe("unbuffered-channels")
	}
	if hasBig(f) {
		r.Out.Probe("block-with-more-than-8000-elements")
	}
	r.Out.Scenario = fileScenario(f, map[string]interface{}{"decoders": procs, "policy": res.policy, "plain_node_groups": hasPlain})
	desc := fmt.Sprintf("%d-block file (%d bytes), %d decoders", len(f.Blocks), len(f.Data), procs)
	if !checkProcess(r.Out, prefix, &res, desc) {
		return
	}
	if len(f.Data) == 0 && res.hdrErr == io.EOF {
		res.hdrErr = nil // an empty stream has no header block to report; Header() saying EOF is not a decoding failure
	}
	if res.hdrErr != nil || res.err != nil {
		r.Out.Violate(prefix+"/unexpected-error", "%s: a valid file failed: Header err=%v Scan err=%v", desc, res.hdrErr, res.err)
		return
	}
	if m := headerMismatch(&f.Header, res.hdr); m != "" {
		r.Out.Violate("C01/header-mismatch", "%s: %s", desc, m)
	}
	want := f.Objects()
	if len(want) != len(res.objs) {
		r.Out.Violate(prefix+"/object-count", "%s: want %d objects got %d", desc, len(want), len(res.objs))
		return
	}
	for i := range want {
		if m := pbfwire.EqObj(want[i], res.objs[i]); m != "" {
			r.Out.Violate(prefix+"/wrong-field/"+kindOf(want[i]), "%s: object %d: %s", desc, i, m)
			r.Out.Trace = res.sim.Trace
			return
		}
	}
}

// ------------------------------------------------------------------ C02

func yieldingFilters(c *scanCfg) {
	c.fNode = func(n *osm.Node) bool {
		simrt.Note("cb", int(n.ID))
		simrt.Yield("filter.node")
		return true
	}
	c.fWay = func(w *osm.Way) bool {
		simrt.Note("cb", int(w.ID))
		simrt.Yield("filter.way")
		return true
	}
	c.fRel = func(x *osm.Relation) bool {
		simrt.Note("cb", int(x.ID))
		simrt.Yield("filter.relation")
		return true
	}
}

func blockOfID(f *pbfwire.File) map[int]int {
	m := map[int]int{}
	for bi, b := range f.Blocks {
		for _, o := range b.Objs {
			m[int(o.ObjectID().Ref())] = bi
		}
	}
	return m
}

// outOfOrder: some later block finished decoding before an earlier one (from the callback notes)
func outOfOrder(f *pbfwire.File, res *scanRes) bool {
	bo := blockOfID(f)
	last := map[int]int64{}
	for _, n := range res.sim.Notes {
		if n.Site == "cb" {
			last[bo[n.Len]] = n.T
		}
	}
	for i := range f.Blocks {
		ti, ok := last[i]
		if !ok {
			continue
		}
		for j := i + 1; j < len(f.Blocks); j++ {
			if tj, ok := last[j]; ok && tj < ti {
				return true
			}
		}
	}
	return false
}

func hasBig(f *pbfwire.File) bool {
	for _, b := range f.Blocks {
		if len(b.Objs) > 8000 {
			return true
		}
	}
	return false
}

func runC02(t *testing.T, r *kit.Run) {
	maxB := 12
	if r.Tape.Chance(1, 8) {
		maxB = 40
	}
	f := pbfwire.Gen(r.Tape, pbfwire.Opts{MinBlocks: 2, MaxBlocks: maxB, Procs: 3, HeaderlessOneIn: 3, BigBlockOneIn: 30, PlainNodes: r.Tape.Chance(1, 4)})
	wl := kit.HashStr(3, string(f.Data))
	r.Out.Workload = wl
	ref := runScan(t, scanCfg{data: f.Data, procs: 1, cut: -1, errAt: -1, sched: kit.SchedCfg{Seed: 1, Flat: true}, maxObj: len(f.Objects()) + 20})
	r.Out.Evals++
	if sym, msg := symptom(&ref); sym != "" || ref.err != nil {
		// the reference scan itself failing is C01's business; C02 has nothing to compare
		r.Out.Probe("reference-scan-failed")
		_ = msg
		return
	}
	// 1 run in 6: a second scanner works on another file at the same time in the same process (two overlapping scans
	// must not share anything); its result is compared with its own 1-decoder reference
	var f2 *pbfwire.File
	var ref2 scanRes
	if r.Tape.Chance(1, 6) && !hasBig(f) {
		f2 = pbfwire.Gen(r.Tape, pbfwire.Opts{MinBlocks: 2, MaxBlocks: 8, Procs: 2, AlwaysHeader: true})
		ref2 = runScan(t, scanCfg{data: f2.Data, procs: 1, cut: -1, errAt: -1, sched: kit.SchedCfg{Seed: 1, Flat: true}, maxObj: len(f2.Objects()) + 20})
		r.Out.Evals++
		if sym, _ := symptom(&ref2); sym != "" || ref2.err != nil {
			f2 = nil
		}
	}
	var execs []map[string]interface{}
	nexec := 3
	if hasBig(f) {
		nexec = 1 // a block of > 8000 elements costs a delay point per element
	}
	for k := 0; k < nexec; k++ {
		procs := drawProcsAll(r.Tape)
		cfg := scanCfg{data: f.Data, procs: procs, cut: -1, errAt: -1, tape: r.Tape, maxObj: len(f.Objects()) + 20, trace: r.Replay}
		cfg.sched = r.Sched
		cfg.sched.Seed = kit.Mix(r.Sched.Seed + uint64(k))
		slowFilters := r.Tape.Bool() && !hasBig(f)
		if slowFilters {
			yieldingFilters(&cfg)
		} else {
			cfg.fNode = func(n *osm.Node) bool { simrt.Note("cb", int(n.ID)); return true }
			cfg.fWay = func(w *osm.Way) bool { simrt.Note("cb", int(w.ID)); return true }
			cfg.fRel = func(x *osm.Relation) bool { simrt.Note("cb", int(x.ID)); return true }
		}
		if f2 != nil {
			cfg.twin = &scanCfg{data: f2.Data, procs: drawProcsAll(r.Tape)}
			r.Out.Probe("two-overlapping-scanners")
		}
		res := runScan(t, cfg)
		ooo := outOfOrder(f, &res)
		addSim(r.Out, &res, wl^uint64(procs)<<8, ooo)
		if ooo {
			r.Out.Probe("later-block-finished-before-earlier")
		}
		if procs > len(f.Blocks) {
			r.Out.Probe("more-decoders-than-blocks")
		}
		if procs > 10 {
			r.Out.Probe("unbuffered-channels")
		}
		if slowFilters {
			r.Out.Probe("slow-filter-callbacks")
		}
		if hasBig(f) {
			r.Out.Probe("block-with-more-than-8000-elements")
		}
		if !f.Header.Present {
			r.Out.Probe("stream-starts-with-a-data-block")
		}
		execs = append(execs, map[string]interface{}{"decoders": procs, "policy": res.policy, "yielding_filters": slowFilters, "out_of_order_completion": ooo})
		desc := fmt.Sprintf("%d-block file, %d decoders, %s", len(f.Blocks), procs, res.policy)
		if !checkProcess(r.Out, "C02", &res, desc) {
			continue
		}
		if res.err != nil {
			r.Out.Violate("C02/unexpected-error", "%s: 1-decoder scan succeeded, this one reports %v", desc, res.err)
			continue
		}
		if len(res.snaps) != len(ref.snaps) {
			r.Out.Violate("C02/lost-or-duplicated", "%s: 1-decoder scan delivers %d objects, this one %d", desc, len(ref.snaps), len(res.snaps))
			r.Out.Trace = res.sim.Trace
			continue
		}
		bad := false
		for i := range ref.snaps {
			if res.snaps[i] != ref.snaps[i] {
				cls := "C02/object-differs"
				if res.objs[i].ObjectID() != ref.objs[i].ObjectID() {
					cls = "C02/order-differs"
				}
				r.Out.Violate(cls, "%s: object %d: 1-decoder scan %s, this scan %s", desc, i, ref.snaps[i], res.snaps[i])
				r.Out.Trace = res.sim.Trace
				bad = true
				break
			}
		}
		if bad {
			continue
		}
		for i, o := range res.objs {
			if s := snapshot(o); s != res.snaps[i] {
				r.Out.Violate("C02/retained-object-modified", "%s: object %d was %s at delivery and is %s after the scan", desc, i, res.snaps[i], s)
				break
			}
		}
		if tw := res.twin; tw != nil {
			d2 := desc + fmt.Sprintf("; a second scanner (%d decoders) was scanning another %d-block file at the same time", cfg.twin.procs, len(f2.Blocks))
			switch {
			case !tw.closeOK:
				r.Out.Violate("C02/overlapping-scanners/second-scan-did-not-finish", "%s", d2)
			case tw.err != nil || len(tw.snaps) != len(ref2.snaps):
				r.Out.Violate("C02/overlapping-scanners/lost-or-duplicated", "%s: the second scan alone delivers %d objects, here %d (err=%v)", d2, len(ref2.snaps), len(tw.snaps), tw.err)
			default:
				for i := range ref2.snaps {
					if tw.snaps[i] != ref2.snaps[i] {
						r.Out.Violate("C02/overlapping-scanners/object-differs", "%s: object %d of the second scan: alone %s, here %s", d2, i, ref2.snaps[i], tw.snaps[i])
						break
					}
				}
			}
		}
	}
	r.Out.Scenario = fileScenario(f, map[string]interface{}{"executions": execs})
}

// ------------------------------------------------------------------ C08

type pred struct {
	name string
	fn   func(o osm.Object, snap string, ordinal int) bool
}

func predFamilies() []pred {
	return []pred{
		{"accept-all", func(o osm.Object, s string, n int) bool { return true }},
		{"reject-all", func(o osm.Object, s string, n int) bool { return false }},
		{"alternate-by-ordinal", func(o osm.Object, s string, n int) bool { return n%2 == 0 }},
		{"hash-of-content", func(o osm.Object, s string, n int) bool { return kit.HashStr(9, s)%3 != 0 }},
		{"only-tagged", func(o osm.Object, s string, n int) bool {
			switch x := o.(type) {
			case *osm.Node:
				return len(x.Tags) > 0
			case *osm.Way:
				return len(x.Tags) > 0
			case *osm.Relation:
				return len(x.Tags) > 0
			}
			return false
		}},
		{"reject-2-accept-1", func(o osm.Object, s string, n int) bool { return n%3 == 2 }},
		{"content-length-odd", func(o osm.Object, s string, n int) bool { return len(s)%2 == 1 }},
	}
}

func runC08(t *testing.T, r *kit.Run) {
	c08max := 10
	if r.Tape.Chance(1, 5) {
		c08max = 30 // enough blocks to fill every queue of a 1-decoder pipeline behind a stalled consumer
	}
	f := pbfwire.Gen(r.Tape, pbfwire.Opts{MinBlocks: 1, MaxBlocks: c08max, MaxElems: 8, Procs: 2, HeaderlessOneIn: 4, PlainNodes: r.Tape.Chance(1, 3)})
	wl := kit.HashStr(4, string(f.Data))
	r.Out.Workload = wl
	ref := runScan(t, scanCfg{data: f.Data, procs: 1, cut: -1, errAt: -1, sched: kit.SchedCfg{Seed: 1, Flat: true}, maxObj: len(f.Objects()) + 20})
	r.Out.Evals++
	if sym, _ := symptom(&ref); sym != "" || ref.err != nil {
		r.Out.Probe("reference-scan-failed")
		return
	}
	ordinal := map[osm.ObjectID]int{}
	for i, o := range ref.objs {
		ordinal[o.ObjectID()] = i
	}
	blockOf := blockOfID(f)
	fams := predFamilies()
	var execs []map[string]interface{}
	for k := 0; k < 3; k++ {
		procs := drawProcs(r.Tape)
		mask := r.Tape.Draw(8)
		pn, pw, pr := fams[r.Tape.Draw(len(fams))], fams[r.Tape.Draw(len(fams))], fams[r.Tape.Draw(len(fams))]
		useN, useW, useR := !r.Tape.Chance(1, 4), !r.Tape.Chance(1, 4), !r.Tape.Chance(1, 4)
		yieldIn := r.Tape.Bool()
		cfg := scanCfg{data: f.Data, procs: procs, cut: -1, errAt: -1, tape: r.Tape, maxObj: len(f.Objects()) + 20, trace: r.Replay}
		cfg.sched = r.Sched
		cfg.sched.Seed = kit.Mix(r.Sched.Seed + uint64(k))
		cfg.skip = [3]bool{mask&1 != 0, mask&2 != 0, mask&4 != 0}
		cfg.header = r.Tape.Bool() // Header() before the first Scan also starts the decoders
		// predicates inspect but never retain their argument; the decision is a function of the element only
		decide := func(p pred, o osm.Object) bool {
			s := snapshot(o)
			v := p.fn(o, s, ordinal[o.ObjectID()])
			if v {
				simrt.Note("acc", int(o.ObjectID().Ref()))
			} else {
				simrt.Note("rej", int(o.ObjectID().Ref()))
			}
			if yieldIn {
				simrt.Yield("filter")
			}
			return v
		}
		if useN {
			cfg.fNode = func(n *osm.Node) bool { return decide(pn, n) }
		}
		if useW {
			cfg.fWay = func(w *osm.Way) bool { return decide(pw, w) }
		}
		if useR {
			cfg.fRel = func(x *osm.Relation) bool { return decide(pr, x) }
		}
		res := runScan(t, cfg)
		// expected: filter the reference
		var want []string
		var wantObjs []osm.Object
		for i, o := range ref.objs {
			keep := true
			switch o.(type) {
			case *osm.Node:
				keep = !cfg.skip[0] && (!useN || pn.fn(o, ref.snaps[i], i))
			case *osm.Way:
				keep = !cfg.skip[1] && (!useW || pw.fn(o, ref.snaps[i], i))
			case *osm.Relation:
				keep = !cfg.skip[2] && (!useR || pr.fn(o, ref.snaps[i], i))
			}
			if keep {
				want = append(want, ref.snaps[i])
				wantObjs = append(wantObjs, o)
			}
		}
		// non-trivial: within one block an element was rejected and a later one of that block accepted
		nontriv := false
		lastRej := map[int]bool{}
		for _, n := range res.sim.Notes {
			switch n.Site {
			case "rej":
				lastRej[blockOf[n.Len]] = true
			case "acc":
				if lastRej[blockOf[n.Len]] {
					nontriv = true
				}
			}
		}
		addSim(r.Out, &res, wl^uint64(mask)<<4^uint64(procs)<<12, nontriv)
		if nontriv {
			r.Out.Probe("rejected-then-accepted-in-one-block")
		}
		if mask != 0 {
			r.Out.Probe("skip-flags-set")
		}
		if len(want) == 0 && len(ref.objs) > 0 {
			r.Out.Probe("everything-filtered-out")
		}
		execs = append(execs, map[string]interface{}{"decoders": procs, "skip_mask": mask, "node_pred": pn.name, "way_pred": pw.name, "relation_pred": pr.name, "preds_installed": []bool{useN, useW, useR}, "policy": res.policy, "kept": len(want), "of": len(ref.objs)})
		desc := fmt.Sprintf("%d-block file, %d decoders, skip mask %03b, predicates node=%s way=%s relation=%s (installed %v %v %v)", len(f.Blocks), procs, mask, pn.name, pw.name, pr.name, useN, useW, useR)
		if !checkProcess(r.Out, "C08", &res, desc) {
			continue
		}
		if res.err != nil {
			r.Out.Violate("C08/unexpected-error", "%s: %v", desc, res.err)
			continue
		}
		if len(res.snaps) != len(want) {
			r.Out.Violate("C08/wrong-selection", "%s: want %d of %d elements, got %d", desc, len(want), len(ref.objs), len(res.snaps))
			r.Out.Trace = res.sim.Trace
			continue
		}
		bad := false
		for i := range want {
			if res.snaps[i] != want[i] {
				cls := "C08/element-modified"
				if res.objs[i].ObjectID() != wantObjs[i].ObjectID() {
					cls = "C08/wrong-selection"
				}
				r.Out.Violate(cls, "%s: position %d: want %s got %s", desc, i, want[i], res.snaps[i])
				r.Out.Trace = res.sim.Trace
				bad = true
				break
			}
		}
		if bad {
			continue
		}
		for i, o := range res.objs {
			if s := snapshot(o); s != res.snaps[i] {
				r.Out.Violate("C08/returned-object-modified-later", "%s: object %d was %s at delivery and is %s after the scan", desc, i, res.snaps[i], s)
				break
			}
		}
	}
	r.Out.Scenario = fileScenario(f, map[string]interface{}{"executions": execs})
}

// ------------------------------------------------------------------ C09

func runC09(t *testing.T, r *kit.Run) {
	f := pbfwire.Gen(r.Tape, pbfwire.Opts{MinBlocks: 1, MaxBlocks: 8, MaxElems: 4, Procs: 2, AlwaysHeader: true, PlainNodes: r.Tape.Chance(1, 4)})
	wl := kit.HashStr(5, string(f.Data))
	r.Out.Workload = wl
	mask := 0
	if r.Tape.Bool() {
		mask = r.Tape.Draw(8)
	}
	skip := [3]bool{mask&1 != 0, mask&2 != 0, mask&4 != 0}
	keep := func(o osm.Object) bool {
		switch o.(type) {
		case *osm.Node:
			return !skip[0]
		case *osm.Way:
			return !skip[1]
		case *osm.Relation:
			return !skip[2]
		}
		return true
	}
	// model: per delivered object, the block it is in
	type exp struct {
		obj   osm.Object
		block int
	}
	var want []exp
	emptyBlocks := 0
	for bi, b := range f.Blocks {
		n := 0
		for _, o := range b.Objs {
			if keep(o) {
				want = append(want, exp{o, bi})
				n++
			}
		}
		if n == 0 {
			emptyBlocks++
		}
	}
	procs := drawProcs(r.Tape)
	full := runScan(t, scanCfg{data: f.Data, procs: procs, cut: -1, errAt: -1, sched: r.Sched, tape: r.Tape, skip: skip, maxObj: len(want) + 20, trace: r.Replay})
	addSim(r.Out, &full, wl^uint64(mask), emptyBlocks > 0 || len(f.Blocks) > 2)
	if emptyBlocks > 0 {
		r.Out.Probe("empty-blocks-from-skip-flags")
	}
	desc := fmt.Sprintf("%d-block file, skip mask %03b, %d decoders", len(f.Blocks), mask, procs)
	r.Out.Scenario = fileScenario(f, map[string]interface{}{"skip_mask": mask, "decoders": procs, "kept_objects": len(want), "empty_blocks": emptyBlocks})
	if !checkProcess(r.Out, "C09", &full, desc) {
		return
	}
	if full.err != nil || len(full.objs) != len(want) {
		r.Out.Violate("C09/full-scan-differs", "%s: want %d objects, got %d (err=%v)", desc, len(want), len(full.objs), full.err)
		return
	}
	prevOf := func(bi int) int64 {
		if bi == 0 {
			if f.Header.Present {
				return 0
			}
			return 0
		}
		return int64(f.Blocks[bi-1].Offset)
	}
	for i, w := range want {
		wantC := int64(f.Blocks[w.block].Offset)
		wantP := prevOf(w.block)
		if full.offs[i][0] != wantC {
			r.Out.Violate("C09/fully-scanned-bytes-wrong", "%s: after object %d (block %d at offset %d) FullyScannedBytes=%d", desc, i, w.block, wantC, full.offs[i][0])
			return
		}
		if full.offs[i][1] != wantP {
			r.Out.Violate("C09/previous-fully-scanned-bytes-wrong", "%s: after object %d (block %d; preceding block at %d) PreviousFullyScannedBytes=%d", desc, i, w.block, wantP, full.offs[i][1])
			return
		}
		if i > 0 && (full.offs[i][0] < full.offs[i-1][0] || full.offs[i][1] < full.offs[i-1][1]) {
			r.Out.Violate("C09/offset-decreased", "%s: offsets %v then %v", desc, full.offs[i-1], full.offs[i])
			return
		}
	}
	objsOf := func(es []exp) []osm.Object {
		var o []osm.Object
		for _, e := range es {
			o = append(o, e.obj)
		}
		return o
	}
	// the offsets also hold after a Scan that returned false (end of input, or a cancelled scan): the reported
	// count is the start of an existing block, never before the block of the most recently returned object, and no
	// undelivered object lies before it; resuming there yields exactly the objects from that block on
	blockAt := func(x int64) int {
		for bi, b := range f.Blocks {
			if int64(b.Offset) == x {
				return bi
			}
		}
		if x == 0 {
			return -1 // start of the stream (header block)
		}
		return -2
	}
	checkStopOffset := func(tag string, delivered int, x int64, d string) (int, bool) {
		bx := blockAt(x)
		if bx == -2 {
			r.Out.Violate("C09/"+tag+"/offset-is-not-the-start-of-a-block", "%s: after %d delivered objects FullyScannedBytes=%d, which is not the offset of any block (blocks start at %v)", d, delivered, x, func() []int {
				var o []int
				for _, b := range f.Blocks {
					o = append(o, b.Offset)
				}
				return o
			}())
			return 0, false
		}
		if delivered > 0 && bx < want[delivered-1].block {
			r.Out.Violate("C09/"+tag+"/offset-before-last-returned-object", "%s: after %d delivered objects (last in block %d) FullyScannedBytes=%d is block %d", d, delivered, want[delivered-1].block, x, bx)
			return 0, false
		}
		if delivered < len(want) && want[delivered].block < bx {
			r.Out.Violate("C09/"+tag+"/offset-skips-undelivered-objects", "%s: after %d delivered objects FullyScannedBytes=%d (block %d) but the next undelivered object is in block %d", d, delivered, x, bx, want[delivered].block)
			return 0, false
		}
		return bx, true
	}
	if _, ok := checkStopOffset("end-of-input", len(full.objs), full.endOffs[0], desc+"; after the final Scan()==false"); ok {
		r.Out.Probe("offset-read-after-end-of-input")
	}
	for n := 0; n < 2 && len(want) > 1; n++ {
		k := r.Tape.Draw(len(want))
		mode := 1 + r.Tape.Draw(2)
		dq := int64(1) << uint(r.Tape.Draw(14))
		p2 := drawProcs(r.Tape)
		sched := r.Sched
		sched.Seed = kit.Mix(r.Sched.Seed + 977*uint64(n+1))
		st := runScan(t, scanCfg{data: f.Data, procs: p2, cut: -1, errAt: -1, sched: sched, tape: r.Tape, skip: skip, maxObj: len(want) + 20, trace: r.Replay,
			stopAfter: k, stopMode: mode, cancelDelayQ: dq})
		addSim(r.Out, &st, wl^uint64(k)<<24^uint64(mode)<<40, true)
		r.Out.Fault([]string{"", "cancel-by-scanning-goroutine", "cancel-by-second-goroutine"}[mode])
		d2 := fmt.Sprintf("%s; cancelled (mode %d, after k=%d / delay %d quanta) with %d decoders, %d objects delivered", desc, mode, k, dq, p2, len(st.objs))
		if !checkProcess(r.Out, "C09/after-cancel", &st, d2) {
			continue
		}
		if m := sameObjs(objsOf(want[:min(len(st.objs), len(want))]), st.objs); m != "" || len(st.objs) > len(want) {
			continue // what a cancelled scan delivers is C07's and C02's business
		}
		bx, ok := checkStopOffset("after-cancel", len(st.objs), st.endOffs[0], d2)
		if !ok {
			r.Out.Trace = st.sim.Trace
			continue
		}
		if len(st.objs) < len(want) {
			r.Out.Probe("offset-read-after-cancelled-scan")
		}
		var rest []osm.Object
		for _, w := range want {
			if w.block >= bx {
				rest = append(rest, w.obj)
			}
		}
		rs := runScan(t, scanCfg{data: f.Data[st.endOffs[0]:], procs: drawProcs(r.Tape), cut: -1, errAt: -1, sched: kit.SchedCfg{Seed: kit.Mix(sched.Seed + 1), Flat: sched.Flat}, tape: r.Tape, skip: skip, maxObj: len(want) + 20})
		addSim(r.Out, &rs, wl^uint64(k)<<24^uint64(mode)<<40^1, true)
		if !checkProcess(r.Out, "C09/resume-after-cancel", &rs, d2) {
			continue
		}
		if m := sameObjs(rest, rs.objs); m != "" || rs.err != nil {
			r.Out.Violate("C09/resume-after-cancel/wrong-objects", "%s; resumed at %d: %s (err=%v)", d2, st.endOffs[0], m, rs.err)
		}
	}

	// crash after k objects, restart from the persisted offset
	ks := map[int]bool{0: true, len(want): true}
	if len(want) > 0 {
		ks[1] = true
	}
	for n := 0; n < 6; n++ {
		ks[r.Tape.Draw(len(want)+1)] = true
	}
	for k := 0; k <= len(want); k++ {
		if !ks[k] {
			continue
		}
		for _, usePrev := range []bool{false, true} {
			var off int64
			fromBlock := 0
			if k > 0 {
				off = full.offs[k-1][0]
				fromBlock = want[k-1].block
				if usePrev {
					off = full.offs[k-1][1]
					if fromBlock > 0 {
						fromBlock--
					} else {
						fromBlock = -1 // previous offset of the first block is 0: the whole file
					}
				}
			} else {
				if usePrev {
					continue
				}
				fromBlock = -1
			}
			var rest []osm.Object
			for _, w := range want {
				if w.block >= fromBlock {
					rest = append(rest, w.obj)
				}
			}
			p2 := drawProcs(r.Tape)
			sched := r.Sched
			sched.Seed = kit.Mix(r.Sched.Seed + uint64(k*2+1))
			if usePrev {
				sched.Seed++
			}
			// the new scanner either gets the remaining bytes, or - like a caller resuming from a file - a seekable reader
			// over the whole data positioned at the offset; half of the time it is asked for the header first
			rcfg := scanCfg{data: f.Data[off:], procs: p2, cut: -1, errAt: -1, sched: sched, tape: r.Tape, skip: skip, maxObj: len(want) + 20, trace: r.Replay, header: r.Tape.Bool()}
			if off > 0 && r.Tape.Bool() {
				rcfg.data, rcfg.startAt = f.Data, int(off)
				r.Out.Probe("resumed-through-a-seekable-reader")
			}
			if rcfg.header {
				r.Out.Probe("resumed-scan-asked-for-header-first")
			}
			res := runScan(t, rcfg)
			addSim(r.Out, &res, wl^uint64(k)<<20^uint64(mask), true)
			r.Out.Fault("consumer-crash-and-restart")
			if off > 0 {
				r.Out.Probe("resumed-scan-starts-at-a-data-block")
			}
			d2 := fmt.Sprintf("%s; stopped after %d objects, resumed at offset %d (previous=%v) with %d decoders", desc, k, off, usePrev, p2)
			if !checkProcess(r.Out, "C09/resume", &res, d2) {
				continue
			}
			if res.err != nil {
				r.Out.Violate("C09/resume/error", "%s: %v", d2, res.err)
				continue
			}
			if m := sameObjs(rest, res.objs); m != "" {
				r.Out.Violate("C09/resume/wrong-objects", "%s: %s", d2, m)
				r.Out.Trace = res.sim.Trace
				continue
			}
			// offsets of the resumed scan are relative to its own start
			j := 0
			for _, w := range want {
				if w.block >= fromBlock {
					wantC := int64(f.Blocks[w.block].Offset) - off
					if res.offs[j][0] != wantC {
						r.Out.Violate("C09/resume/fully-scanned-bytes-wrong", "%s: object %d: want %d got %d", d2, j, wantC, res.offs[j][0])
						break
					}
					j++
				}
			}
		}
	}
}

var _ = reflect.DeepEqual
