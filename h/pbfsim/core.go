// Package pbfsim is engine A: the osmpbf (and osmxml) scanners of the instrumented copy
// run under the simulator against generated files, a simulated reader and a scripted consumer.
package pbfsim

import (
	"context"
	"errors"
	"fmt"
	"io"
	"strings"
	"testing"
	"time"

	"github.com/paulmach/osm"
	"github.com/paulmach/osm/osmpbf"
	"github.com/paulmach/osm/simrt"

	"h/kit"
	"h/simu"
)

// rdEvent is one Read call of the simulated reader.
type rdEvent struct {
	T   int64
	Pos int
	N   int
}

// simReader is the simulated input: seeded chunking, a delay point per Read, EOF at a cut
// offset or an I/O error at an offset.
type simReader struct {
	data    []byte
	pos     int
	cut     int   // serve only data[:cut]; -1 = whole
	errAt   int   // return errVal once pos reaches errAt; -1 = never
	errVal  error // the injected error
	mode    int   // 0 whole request, 1 one byte, 2 random 1..k
	k       int
	state   uint64
	log     []rdEvent
	fired   bool
	zeroLen int // number of (0, nil) reads to inject before a real one: 0 = none
}

var errInjected = errors.New("simulated I/O error")

// simSeekReader is a simReader that is also an io.Seeker, like an *os.File positioned somewhere inside the data.
type simSeekReader struct{ *simReader }

func (r simSeekReader) Seek(offset int64, whence int) (int64, error) {
	simrt.Yield("reader.Seek")
	var abs int64
	switch whence {
	case io.SeekStart:
		abs = offset
	case io.SeekCurrent:
		abs = int64(r.pos) + offset
	case io.SeekEnd:
		abs = int64(len(r.data)) + offset
	default:
		return 0, errors.New("simSeekReader: invalid whence")
	}
	if abs < 0 {
		return 0, errors.New("simSeekReader: negative position")
	}
	r.pos = int(abs)
	if r.pos > len(r.data) {
		r.pos = len(r.data)
	}
	return abs, nil
}

func (r *simReader) Read(p []byte) (int, error) {
	simrt.Yield("reader.Read")
	end := len(r.data)
	if r.cut >= 0 && r.cut < end {
		end = r.cut
	}
	if r.errAt >= 0 && r.errAt < end {
		end = r.errAt
	}
	if r.pos >= end {
		if r.errAt >= 0 && r.pos >= r.errAt {
			r.fired = true
			return 0, r.errVal
		}
		return 0, io.EOF
	}
	n := len(p)
	switch r.mode {
	case 1:
		n = 1
	case 2:
		r.state = kit.Mix(r.state)
		n = 1 + int(r.state%uint64(r.k))
	}
	if n > len(p) {
		n = len(p)
	}
	if n > end-r.pos {
		n = end - r.pos
	}
	copy(p, r.data[r.pos:r.pos+n])
	r.log = append(r.log, rdEvent{time.Now().UnixNano(), r.pos, n})
	r.pos += n
	return n, nil
}

// scanCfg is one scan execution.
type scanCfg struct {
	data   []byte
	procs  int
	cut    int
	errAt  int
	errVal error
	skip   [3]bool // nodes, ways, relations
	fNode  func(*osm.Node) bool
	fWay   func(*osm.Way) bool
	fRel   func(*osm.Relation) bool
	sched  kit.SchedCfg
	tape   *kit.Tape // draws the delay policy and the reader chunking; nil = simplest
	header bool      // call Header() first
	maxObj int
	trace  bool
	// optional stop: after stopAfter delivered objects (-1 = never) the context is cancelled, by the
	// scanning goroutine (stopMode 1) or, independent of stopAfter, by a second goroutine after
	// cancelDelayQ quanta (stopMode 2); Scan is then called until it returns false
	stopAfter    int
	stopMode     int
	cancelDelayQ int64
	// startAt > 0: data is the whole file and the scanner is handed a seekable reader positioned at startAt
	// (the way a caller resumes from a file); offsets in cut/errAt stay absolute
	startAt int
	// twin, when set, is a second, independent scan (own reader, own scanner, own consumer goroutine "consumer2")
	// whose lifetime overlaps this one's inside the same simulated process
	twin *scanCfg
}

type scanRes struct {
	hdr     *osmpbf.Header
	hdrErr  error
	objs    []osm.Object
	snaps   []string
	err     error
	closeOK bool
	sim     simu.Result
	reader  *simReader
	policy  string
	offs    [][2]int64 // FullyScannedBytes / PreviousFullyScannedBytes after each successful Scan
	endOffs [2]int64   // the same, read after the final Scan()==false
	twin    *scanRes   // result of the overlapping second scan, if one was configured
}

var speedSets = [][]int64{
	{4},               // uniform
	{1, 4, 40},        // mixed
	{1, 1, 1, 400},    // mostly fast, some very slow
	{1, 30, 1000},     // wide spread
	{2, 2, 2, 2, 200}, // one in five slow
}

// drawPolicy draws the delay policy of an execution from the tape.
func drawPolicy(t *kit.Tape, c *simu.Cfg) string {
	if t == nil {
		return "uniform"
	}
	set := t.Draw(len(speedSets))
	c.SpeedClasses = speedSets[set]
	c.SpeedSeed = uint64(t.Draw(1 << 16))
	cm := []int64{4, 1, 40, 400, 4000}[t.Draw(5)] // consumer speed
	c.Means = append(c.Means, simrt.Mean{Match: "consumer", Mean: cm})
	pol := fmt.Sprintf("speeds=%v/%d consumer=%d", speedSets[set], c.SpeedSeed, cm)
	if cm >= 400 {
		pol += " [stalled-consumer]"
	}
	if set >= 2 {
		pol += " [stalled-pipeline-goroutines]"
	}
	return pol
}

func newReader(t *kit.Tape, data []byte, seed uint64) *simReader {
	r := &simReader{data: data, cut: -1, errAt: -1, state: seed}
	if t != nil {
		r.mode = t.Draw(3)
		r.k = 1 + t.Draw(200)
	}
	return r
}

// runScan executes a complete scan (until Scan returns false) followed by Close.
func runScan(t *testing.T, c scanCfg) (res scanRes) {
	cfg := simu.Cfg{Sched: c.sched, Name: "consumer", KeepTrace: c.trace}
	res.policy = drawPolicy(c.tape, &cfg)
	rd := newReader(c.tape, c.data, c.sched.Seed)
	rd.cut, rd.errAt, rd.errVal = c.cut, c.errAt, c.errVal
	if c.errAt < 0 {
		rd.errAt = -1
	}
	res.reader = rd
	if c.maxObj == 0 {
		c.maxObj = 100000
	}
	res.sim = simu.Run(t, cfg, func(sim *simrt.Sim, root context.Context) {
		ctx, cancel := context.WithCancel(root)
		defer cancel()
		var src io.Reader = rd
		if c.startAt > 0 {
			rd.pos = c.startAt
			src = simSeekReader{rd}
		}
		sc := osmpbf.New(ctx, src, c.procs)
		if c.stopMode == 2 {
			d := time.Duration(c.cancelDelayQ * simrt.Q)
			simrt.GoNamed("canceller", func() {
				time.Sleep(d)
				simrt.Yield("canceller.cancel")
				cancel()
			})
		}
		sc.SkipNodes, sc.SkipWays, sc.SkipRelations = c.skip[0], c.skip[1], c.skip[2]
		sc.FilterNode, sc.FilterWay, sc.FilterRelation = c.fNode, c.fWay, c.fRel
		var twinDone chan struct{}
		if c.twin != nil {
			tw := c.twin
			res.twin = &scanRes{}
			tr := res.twin
			rd2 := newReader(c.tape, tw.data, c.sched.Seed+1)
			tr.reader = rd2
			sc2 := osmpbf.New(root, rd2, tw.procs)
			twinDone = make(chan struct{})
			simrt.GoNamed("consumer2", func() {
				defer close(twinDone)
				for len(tr.objs) < 100000 && sim.Aborted() == "" {
					simrt.Yield("consumer2.Scan")
					if !sc2.Scan() {
						break
					}
					o := sc2.Object()
					tr.objs = append(tr.objs, o)
					tr.snaps = append(tr.snaps, snapshot(o))
				}
				tr.err = sc2.Err()
				simrt.Yield("consumer2.Close")
				sc2.Close()
				tr.closeOK = true
			})
		}
		if c.header {
			simrt.Yield("consumer.Header")
			res.hdr, res.hdrErr = sc.Header()
		}
		for len(res.objs) < c.maxObj && sim.Aborted() == "" {
			if c.stopMode == 1 && len(res.objs) == c.stopAfter {
				simrt.Yield("consumer.cancel")
				cancel()
			}
			simrt.Yield("consumer.Scan")
			if !sc.Scan() {
				break
			}
			o := sc.Object()
			res.objs = append(res.objs, o)
			res.snaps = append(res.snaps, snapshot(o))
			res.offs = append(res.offs, [2]int64{sc.FullyScannedBytes(), sc.PreviousFullyScannedBytes()})
		}
		res.err = sc.Err()
		res.endOffs = [2]int64{sc.FullyScannedBytes(), sc.PreviousFullyScannedBytes()}
		simrt.Yield("consumer.Close")
		sc.Close()
		res.closeOK = true
		if twinDone != nil {
			<-twinDone
		}
	})
	return
}

func snapshot(o osm.Object) string {
	if o == nil {
		return "<nil>"
	}
	switch x := o.(type) {
	case *osm.Node:
		return fmt.Sprintf("N%+v", *x)
	case *osm.Way:
		return fmt.Sprintf("W%+v", *x)
	case *osm.Relation:
		return fmt.Sprintf("R%+v", *x)
	}
	return fmt.Sprintf("%T%+v", o, o)
}

// symptom classifies what went wrong at the process level, "" if nothing.
func symptom(res *scanRes) (string, string) {
	s := &res.sim
	if len(s.Crashes) > 0 {
		return "crash", fmt.Sprintf("panic in library goroutine %s: %s", s.Crashes[0].G, s.Crashes[0].Value)
	}
	if s.CallerPanic != "" {
		return "crash", "panic in the calling goroutine: " + s.CallerPanic
	}
	if s.Aborted == "budget" {
		return "hang", "yield budget exceeded (livelock)"
	}
	if s.Hang != "" && !s.BodyDone {
		return "hang", fmt.Sprintf("deadlock: %v blocked at %v", s.Hang, s.Blocked)
	}
	if s.Hang != "" {
		return "goroutine-leak", fmt.Sprintf("goroutines left blocked for good after Close: %v", s.Blocked)
	}
	return "", ""
}

func addSim(o *kit.Outcome, res *scanRes, workload uint64, nontrivial bool) {
	// injected perturbations of this execution, counted as fault kinds that fired
	if strings.Contains(res.policy, "[stalled-consumer]") {
		o.Fault("stalled-consumer")
	}
	if strings.Contains(res.policy, "[stalled-pipeline-goroutines]") {
		o.Fault("stalled-pipeline-goroutines")
	}
	if res.reader != nil && res.reader.mode != 0 && len(res.reader.log) > 0 {
		o.Fault("short-reads")
	}
	if len(o.Violations) == 0 && len(res.sim.Trace) > 0 {
		// the oracle runs right after this call: the trace kept is that of the first violating execution
		o.Trace = res.sim.Trace
		o.Goroutines = res.sim.Goroutines
	}
	o.Evals++
	o.SimNanos += res.sim.SimNanos
	o.Yields += res.sim.Yields
	o.Scheds = append(o.Scheds, res.sim.SchedHash)
	o.States = append(o.States, res.sim.States...)
	if nontrivial {
		o.NonTrivial++
		o.Pairs = append(o.Pairs, kit.Mix(workload^res.sim.SchedHash))
	}
}
