package pbfsim

import (
	"fmt"
	"testing"

	"github.com/paulmach/osm"

	"h/kit"
	"h/pbfwire"
)

type W = pbfwire.W

// ---- damage catalogue: every entry is one file block that a reader can recognise as damaged/unsupported

type damage struct {
	name   string
	block  func() []byte
	header bool // replaces the header block instead of a data block
	note   string
}

func strTable(ss ...string) []byte {
	st := &W{}
	for _, s := range ss {
		st.Bytes(1, []byte(s))
	}
	return st.B
}

func primBlock(st []byte, groups ...[]byte) []byte {
	pb := &W{}
	pb.Bytes(1, st)
	for _, g := range groups {
		pb.Bytes(2, g)
	}
	return pb.B
}

// primBlockNoST is a PrimitiveBlock that leaves out the string table field altogether.
func primBlockNoST(groups ...[]byte) []byte {
	pb := &W{}
	for _, g := range groups {
		pb.Bytes(2, g)
	}
	return pb.B
}

type denseSpec struct {
	ids, lats, lons     []int64
	usids               []int64
	kv                  []uint64
	noIDs, noLat, noLon bool
}

func denseGroup(d denseSpec) []byte {
	w := &W{}
	if !d.noIDs {
		w.Bytes(1, pbfwire.PackedS(d.ids))
	}
	if d.usids != nil {
		inf := &W{}
		inf.Bytes(5, pbfwire.PackedS(d.usids))
		w.Bytes(5, inf.B)
	}
	if !d.noLat {
		w.Bytes(8, pbfwire.PackedS(d.lats))
	}
	if !d.noLon {
		w.Bytes(9, pbfwire.PackedS(d.lons))
	}
	if d.kv != nil {
		w.Bytes(10, pbfwire.PackedU(d.kv))
	}
	g := &W{}
	g.Bytes(2, w.B)
	return g.B
}

func goodPayload(start int64) []byte {
	return primBlock(strTable("", "k", "v"), denseGroup(denseSpec{ids: []int64{start, 1}, lats: []int64{1, 1}, lons: []int64{2, 2}, kv: []uint64{1, 2, 0, 0}}))
}

func wayGroup(build func(m *W)) []byte {
	m := &W{}
	m.Varint(1, 900)
	build(m)
	g := &W{}
	g.Bytes(3, m.B)
	return g.B
}

func relGroup(build func(m *W)) []byte {
	m := &W{}
	m.Varint(1, 901)
	build(m)
	g := &W{}
	g.Bytes(4, m.B)
	return g.B
}

func zblob(payload []byte, rawSize int, mut func([]byte) []byte) []byte {
	z := pbfwire.Deflate(payload)
	if mut != nil {
		z = mut(z)
	}
	b := &W{}
	b.Varint(2, uint64(rawSize))
	b.Bytes(3, z)
	return b.B
}

func hdrOnly(typ string, datasize uint64) []byte {
	h := &W{}
	h.Bytes(1, []byte(typ))
	h.Varint(3, datasize)
	return pbfwire.Frame(h.B, nil)
}

func damages() []damage {
	st := strTable("", "k", "v")
	good := goodPayload(1000)
	data := func(payload []byte) func() []byte {
		return func() []byte { return pbfwire.FileBlock("OSMData", payload, false) }
	}
	PS, PU := pbfwire.PackedS, pbfwire.PackedU
	return []damage{
		{name: "blobheader-size-64KiB", block: func() []byte {
			return append([]byte{0, 1, 0, 0}, pbfwire.FileBlock("OSMData", good, false)[4:]...)
		}},
		{name: "blobheader-size-0xFFFFFFFF", block: func() []byte {
			return append([]byte{0xff, 0xff, 0xff, 0xff}, pbfwire.FileBlock("OSMData", good, false)[4:]...)
		}},
		{name: "datasize-32MiB", block: func() []byte { return hdrOnly("OSMData", 32<<20) }},
		{name: "datasize-negative", block: func() []byte { return hdrOnly("OSMData", 0xFFFFFFFFFFFFFFFF) }},
		{name: "zlib-rawsize-too-small", block: func() []byte { return pbfwire.RawFileBlock("OSMData", zblob(good, len(good)-1, nil), nil) }},
		{name: "zlib-rawsize-too-large", block: func() []byte { return pbfwire.RawFileBlock("OSMData", zblob(good, len(good)+5, nil), nil) }},
		{name: "zlib-rawsize-smaller-ending-on-a-group-boundary", note: "raw_size names a prefix of the inflated data that still parses", block: func() []byte {
			one := primBlock(st, denseGroup(denseSpec{ids: []int64{1000, 1}, lats: []int64{1, 1}, lons: []int64{2, 2}}))
			two := append(append([]byte(nil), one...), func() []byte {
				w := &W{}
				w.Bytes(2, denseGroup(denseSpec{ids: []int64{1002}, lats: []int64{1}, lons: []int64{2}}))
				return w.B
			}()...)
			return pbfwire.RawFileBlock("OSMData", zblob(two, len(one), nil), nil)
		}},
		{name: "zlib-empty-stream-rawsize-positive", block: func() []byte {
			return pbfwire.RawFileBlock("OSMData", zblob(nil, len(good), nil), nil)
		}},
		{name: "zlib-bad-header", block: func() []byte {
			return pbfwire.RawFileBlock("OSMData", zblob(good, len(good), func(z []byte) []byte { z[0] = 0x79; return z }), nil)
		}},
		{name: "zlib-truncated-half", block: func() []byte {
			return pbfwire.RawFileBlock("OSMData", zblob(good, len(good), func(z []byte) []byte { return z[:len(z)/2] }), nil)
		}},
		{name: "zlib-truncated-in-trailer", note: "payload intact, Adler-32 trailer cut", block: func() []byte {
			return pbfwire.RawFileBlock("OSMData", zblob(good, len(good), func(z []byte) []byte { return z[:len(z)-3] }), nil)
		}},
		{name: "zlib-bad-adler", block: func() []byte {
			return pbfwire.RawFileBlock("OSMData", zblob(good, len(good), func(z []byte) []byte { z[len(z)-1] ^= 0x55; return z }), nil)
		}},
		{name: "blob-lzma-only", block: func() []byte {
			b := &W{}
			b.Varint(2, 10)
			b.Bytes(4, []byte("xxxxxxxx"))
			return pbfwire.RawFileBlock("OSMData", b.B, nil)
		}},
		{name: "blob-empty", block: func() []byte { return pbfwire.RawFileBlock("OSMData", nil, nil) }},
		{name: "blob-garbage", block: func() []byte {
			return pbfwire.RawFileBlock("OSMData", []byte{0xff, 0xff, 0xff, 0xff, 0xff, 0x07, 0x01}, nil)
		}},
		{name: "blocktype-unknown", block: func() []byte { return pbfwire.FileBlock("Foo", good, false) }},
		{name: "second-header", block: func() []byte {
			h := &W{}
			h.Bytes(4, []byte("OsmSchema-V0.6"))
			return pbfwire.FileBlock("OSMHeader", h.B, false)
		}},
		{name: "dense-no-ids", block: data(primBlock(st, denseGroup(denseSpec{noIDs: true, lats: []int64{1}, lons: []int64{1}})))},
		{name: "dense-no-lat", block: data(primBlock(st, denseGroup(denseSpec{ids: []int64{5}, noLat: true, lons: []int64{1}})))},
		{name: "dense-no-lon", block: data(primBlock(st, denseGroup(denseSpec{ids: []int64{5}, lats: []int64{1}, noLon: true})))},
		{name: "dense-fewer-lats-than-ids", block: data(primBlock(st, denseGroup(denseSpec{ids: []int64{5, 1, 1}, lats: []int64{1}, lons: []int64{1, 1, 1}})))},
		{name: "dense-fewer-lons-than-ids", block: data(primBlock(st, denseGroup(denseSpec{ids: []int64{5, 1, 1}, lats: []int64{1, 1, 1}, lons: []int64{1}})))},
		{name: "dense-usid-out-of-range", block: data(primBlock(st, denseGroup(denseSpec{ids: []int64{5}, lats: []int64{1}, lons: []int64{1}, usids: []int64{77}})))},
		{name: "dense-usid-negative", block: data(primBlock(st, denseGroup(denseSpec{ids: []int64{5}, lats: []int64{1}, lons: []int64{1}, usids: []int64{-3}})))},
		{name: "dense-keyvals-key-out-of-range", block: data(primBlock(st, denseGroup(denseSpec{ids: []int64{5}, lats: []int64{1}, lons: []int64{1}, kv: []uint64{99, 1, 0}})))},
		{name: "dense-keyvals-val-out-of-range", block: data(primBlock(st, denseGroup(denseSpec{ids: []int64{5}, lats: []int64{1}, lons: []int64{1}, kv: []uint64{1, 99, 0}})))},
		{name: "dense-keyvals-unterminated", block: data(primBlock(st, denseGroup(denseSpec{ids: []int64{5, 1}, lats: []int64{1, 1}, lons: []int64{1, 1}, kv: []uint64{1, 2}})))},
		{name: "way-key-out-of-range", block: data(primBlock(st, wayGroup(func(m *W) {
			m.Bytes(2, PU([]uint64{50}))
			m.Bytes(3, PU([]uint64{1}))
			m.Bytes(8, PS([]int64{1, 2}))
		})))},
		{name: "way-val-out-of-range", block: data(primBlock(st, wayGroup(func(m *W) {
			m.Bytes(2, PU([]uint64{1}))
			m.Bytes(3, PU([]uint64{50}))
			m.Bytes(8, PS([]int64{1, 2}))
		})))},
		{name: "way-more-keys-than-vals", block: data(primBlock(st, wayGroup(func(m *W) {
			m.Bytes(2, PU([]uint64{1, 1}))
			m.Bytes(3, PU([]uint64{2}))
			m.Bytes(8, PS([]int64{1, 2}))
		})))},
		{name: "way-info-usid-out-of-range", block: data(primBlock(st, wayGroup(func(m *W) {
			inf := &W{}
			inf.Varint(5, 40)
			m.Bytes(4, inf.B)
			m.Bytes(8, PS([]int64{1, 2}))
		})))},
		{name: "way-more-lats-than-refs", block: data(primBlock(st, wayGroup(func(m *W) {
			m.Bytes(8, PS([]int64{1, 2}))
			m.Bytes(9, PS([]int64{1, 2, 3}))
			m.Bytes(10, PS([]int64{1, 2}))
		})))},
		{name: "way-more-lons-than-refs", block: data(primBlock(st, wayGroup(func(m *W) {
			m.Bytes(8, PS([]int64{1, 2}))
			m.Bytes(9, PS([]int64{1, 2}))
			m.Bytes(10, PS([]int64{1, 2, 3}))
		})))},
		{name: "rel-role-out-of-range", block: data(primBlock(st, relGroup(func(m *W) {
			m.Bytes(8, PU([]uint64{30}))
			m.Bytes(9, PS([]int64{4}))
			m.Bytes(10, PU([]uint64{1}))
		})))},
		{name: "rel-info-usid-out-of-range", block: data(primBlock(st, relGroup(func(m *W) {
			inf := &W{}
			inf.Varint(5, 40)
			m.Bytes(4, inf.B)
		})))},
		{name: "rel-more-roles-than-types", block: data(primBlock(st, relGroup(func(m *W) {
			m.Bytes(8, PU([]uint64{1, 1}))
			m.Bytes(9, PS([]int64{4, 1}))
			m.Bytes(10, PU([]uint64{1}))
		})))},
		{name: "rel-fewer-memids-than-roles", block: data(primBlock(st, relGroup(func(m *W) {
			m.Bytes(8, PU([]uint64{1, 1}))
			m.Bytes(9, PS([]int64{4}))
			m.Bytes(10, PU([]uint64{1, 1}))
		})))},
		{name: "rel-fewer-types-than-roles", block: data(primBlock(st, relGroup(func(m *W) {
			m.Bytes(8, PU([]uint64{1, 1, 1}))
			m.Bytes(9, PS([]int64{4, 1, 1}))
			m.Bytes(10, PU([]uint64{1, 1}))
		})))},
		// blocks that reference strings but carry no (or an empty) string table of their own: every reference is out of
		// range. Placed after intact blocks, so a worker that keeps state between blocks has a stale table to resolve them in.
		{name: "no-stringtable-dense-keyvals", note: "PrimitiveBlock without field 1", block: data(primBlockNoST(denseGroup(denseSpec{ids: []int64{5}, lats: []int64{1}, lons: []int64{1}, kv: []uint64{1, 1, 0}})))},
		{name: "no-stringtable-dense-usid", note: "PrimitiveBlock without field 1", block: data(primBlockNoST(denseGroup(denseSpec{ids: []int64{5}, lats: []int64{1}, lons: []int64{1}, usids: []int64{1}})))},
		{name: "no-stringtable-way-keys", note: "PrimitiveBlock without field 1", block: data(primBlockNoST(wayGroup(func(m *W) {
			m.Bytes(2, PU([]uint64{1}))
			m.Bytes(3, PU([]uint64{1}))
			m.Bytes(8, PS([]int64{1, 2}))
		})))},
		{name: "no-stringtable-rel-role", note: "PrimitiveBlock without field 1", block: data(primBlockNoST(relGroup(func(m *W) {
			m.Bytes(8, PU([]uint64{1}))
			m.Bytes(9, PS([]int64{7}))
			m.Bytes(10, PU([]uint64{0}))
		})))},
		{name: "empty-stringtable-dense-keyvals", note: "string table present with zero entries", block: data(primBlock(nil, denseGroup(denseSpec{ids: []int64{5}, lats: []int64{1}, lons: []int64{1}, kv: []uint64{1, 1, 0}})))},
		{name: "nested-varint-cut", block: func() []byte {
			p := goodPayload(1000)
			return pbfwire.FileBlock("OSMData", p[:len(p)-1], false)
		}},
		{name: "header-unsupported-required-feature", header: true, block: func() []byte {
			h := &W{}
			h.Bytes(4, []byte("OsmSchema-V0.6"))
			h.Bytes(4, []byte("FutureFeature"))
			return pbfwire.FileBlock("OSMHeader", h.B, true)
		}},
		{name: "header-zlib-bad-adler", header: true, block: func() []byte {
			h := &W{}
			h.Bytes(4, []byte("OsmSchema-V0.6"))
			return pbfwire.RawFileBlock("OSMHeader", zblob(h.B, len(h.B), func(z []byte) []byte { z[len(z)-1] ^= 0x55; return z }), nil)
		}},
	}
}

var c06Procs = []int{1, 2, 3, 11}

// panicSlug turns a panic value into a stable class component (numbers become #).
func panicSlug(v string) string {
	var sb []byte
	lastHash := false
	for i := 0; i < len(v) && len(sb) < 60; i++ {
		c := v[i]
		switch {
		case c >= '0' && c <= '9':
			if !lastHash {
				sb = append(sb, '#')
			}
			lastHash = true
			continue
		case c >= 'a' && c <= 'z', c >= 'A' && c <= 'Z':
			sb = append(sb, c)
		default:
			if len(sb) > 0 && sb[len(sb)-1] != '-' {
				sb = append(sb, '-')
			}
		}
		lastHash = false
	}
	return string(sb)
}

func sameObjs(want, got []osm.Object) string {
	if len(want) != len(got) {
		return fmt.Sprintf("want %d objects, got %d", len(want), len(got))
	}
	for i := range want {
		if m := pbfwire.EqObj(want[i], got[i]); m != "" {
			return fmt.Sprintf("object %d: %s", i, m)
		}
	}
	return ""
}

type c06case struct {
	kind  string // "cut" | "dmg" | "ioerr" | "flip"
	off   int    // cut / error offset
	dmg   int    // index into damages()
	pos   int    // data block index replaced
	procs int
}

func cutWhere(f *pbfwire.File, off int) string {
	if off < f.HeaderEnd {
		switch {
		case off < 4:
			return "header-block/in-length-prefix"
		case off == 4:
			return "header-block/after-length-prefix"
		default:
			return "header-block/inside"
		}
	}
	for _, b := range f.Blocks {
		if off >= b.Offset && off < b.End {
			rel := off - b.Offset
			switch {
			case rel < 4:
				return "data-block/in-length-prefix"
			case rel == 4:
				return "data-block/after-length-prefix"
			case off < b.HdrEnd:
				return "data-block/in-blobheader"
			case off == b.HdrEnd:
				return "data-block/after-blobheader"
			default:
				return "data-block/in-blob"
			}
		}
	}
	return "boundary"
}

func isBoundary(f *pbfwire.File, off int) bool {
	if off == 0 || off == f.HeaderEnd || off == len(f.Data) {
		return true
	}
	for _, b := range f.Blocks {
		if off == b.End {
			return true
		}
	}
	return false
}

// runC06 is one (file, slice) run: the file is drawn from the tape, then every cut offset
// and every (damage class x block position), each at the decoder counts of c06Procs, is a
// separate simulated execution. A run executes the cases whose index is congruent to its
// slice, so the Group runs that share a file enumerate it completely.
func runC06(t *testing.T, r *kit.Run) {
	f := pbfwire.Gen(r.Tape, pbfwire.Opts{MinBlocks: 3, MaxBlocks: 6, MaxGroups: 2, MaxElems: 3, Procs: 2, AlwaysHeader: false})
	wl := kit.HashStr(1, string(f.Data))
	r.Out.Workload = wl
	dm := damages()

	var cases []c06case
	// cut points
	offsets := map[int]bool{}
	if r.Tier == "thorough" {
		for o := 0; o <= len(f.Data); o++ {
			offsets[o] = true
		}
	} else {
		add := func(o int) {
			if o >= 0 && o <= len(f.Data) {
				offsets[o] = true
			}
		}
		bounds := []int{0, f.HeaderEnd}
		for _, b := range f.Blocks {
			bounds = append(bounds, b.End, b.Offset+4, b.HdrEnd)
		}
		for _, b := range bounds {
			for d := -3; d <= 3; d++ {
				add(b + d)
			}
		}
		if len(f.Blocks) > 0 {
			for _, b := range []pbfwire.BlockModel{f.Blocks[0], f.Blocks[len(f.Blocks)-1]} {
				for o := b.Offset; o <= b.End; o += 1 + (b.End-b.Offset)/40 {
					add(o)
				}
			}
		}
		h := kit.Mix(wl)
		for i := 0; i < 24; i++ {
			h = kit.Mix(h)
			add(int(h % uint64(len(f.Data)+1)))
		}
	}
	for o := 0; o <= len(f.Data); o++ {
		if offsets[o] {
			for _, p := range c06Procs {
				cases = append(cases, c06case{kind: "cut", off: o, procs: p})
			}
		}
	}
	// I/O errors at a few offsets (same oracle as a cut, but the reader returns an error, never EOF)
	if len(f.Data) > 0 {
		h := kit.Mix(wl + 7)
		for i := 0; i < 6; i++ {
			h = kit.Mix(h)
			cases = append(cases, c06case{kind: "ioerr", off: int(h % uint64(len(f.Data)+1)), procs: c06Procs[i%len(c06Procs)]})
		}
	}
	// damage classes x positions
	positions := map[int]bool{}
	if n := len(f.Blocks); n > 0 {
		positions[0], positions[n/2], positions[n-1] = true, true, true
	}
	for di, d := range dm {
		if d.header {
			if f.Header.Present {
				for _, p := range c06Procs {
					cases = append(cases, c06case{kind: "dmg", dmg: di, pos: -1, procs: p})
				}
			}
			continue
		}
		for pos := 0; pos < len(f.Blocks); pos++ {
			if d.name == "second-header" && pos == 0 && !f.Header.Present {
				continue // an OSMHeader as the very first block is simply the header
			}
			if positions[pos] {
				for _, p := range c06Procs {
					cases = append(cases, c06case{kind: "dmg", dmg: di, pos: pos, procs: p})
				}
			}
		}
	}

	// random bit flips inside the PrimitiveBlock bytes of raw (uncompressed) blocks: whatever the flip produces, the
	// scan must neither crash nor hang, and the objects of the blocks before the damaged one are delivered first
	{
		h := kit.Mix(wl + 99)
		nflip := 0
		for pos, b := range f.Blocks {
			if b.PayloadOff < 0 || b.End-b.PayloadOff < 2 || nflip >= 3 {
				continue
			}
			nflip++
			for i := 0; i < 24; i++ {
				h = kit.Mix(h)
				cases = append(cases, c06case{kind: "flip", off: int(h >> 8 % uint64(b.End-b.PayloadOff)), dmg: int(h & 0xff), pos: pos, procs: c06Procs[i%2]})
			}
		}
	}

	// replay pins
	pinned := false
	var pin c06case
	if r.Params != nil {
		pinned = true
		k, _ := r.Param("kind")
		pin.kind = []string{"cut", "dmg", "ioerr", "flip"}[k]
		o, _ := r.Param("off")
		pin.off = int(o)
		d, _ := r.Param("dmg")
		pin.dmg = int(d)
		ps, _ := r.Param("pos")
		pin.pos = int(ps)
		pp, _ := r.Param("procs")
		pin.procs = int(pp)
		if pin.off > len(f.Data) || pin.pos >= len(f.Blocks) || (pin.kind == "dmg" && pin.pos < 0 && !f.Header.Present) {
			return // the pinned case does not exist for this (shrunk) file
		}
		cases = []c06case{pin}
	}
	kindIdx := map[string]int{"cut": 0, "dmg": 1, "ioerr": 2, "flip": 3}

	for ci, c := range cases {
		if !pinned && r.Group > 1 && ci%r.Group != r.Slice {
			continue
		}
		sched := r.Sched
		sched.Seed = kit.Mix(r.Sched.Seed + uint64(ci))
		tseed := kit.Mix(wl ^ uint64(c.off*131+c.dmg*7+c.pos*3+c.procs) ^ uint64(kindIdx[c.kind])<<40 ^ r.Sched.Seed)
		if pinned {
			s, _ := r.Param("sseed")
			sched.Seed = uint64(s)
			ts, _ := r.Param("tseed")
			tseed = uint64(ts)
		}
		caseTape := kit.NewTape(tseed)
		pinStr := fmt.Sprintf("[[kind=%d off=%d dmg=%d pos=%d procs=%d sseed=%d tseed=%d]] ", kindIdx[c.kind], c.off, c.dmg, c.pos, c.procs, int64(sched.Seed), int64(tseed))

		cfg := scanCfg{data: f.Data, procs: c.procs, cut: -1, errAt: -1, sched: sched, tape: caseTape, maxObj: len(f.Objects()) + 20, trace: r.Replay}
		cfg.header = kit.Mix(tseed)&1 == 1 // half of the cases ask for the header first: a failed Header() must not change what Scan/Err/Close do
		var want []osm.Object
		wantErr := true
		var class, desc string
		switch c.kind {
		case "cut", "ioerr":
			for _, b := range f.Blocks {
				if b.End <= c.off {
					want = append(want, b.Objs...)
				}
			}
			where := cutWhere(f, c.off)
			if c.kind == "cut" {
				cfg.cut = c.off
				wantErr = !isBoundary(f, c.off)
				class = "C06/cut/" + where
				desc = fmt.Sprintf("input cut at offset %d of %d (%s), %d decoders", c.off, len(f.Data), where, c.procs)
				r.Out.Fault("eof-at-offset")
			} else {
				cfg.errAt = c.off
				cfg.errVal = errInjected
				wantErr = true
				class = "C06/ioerr/" + where
				desc = fmt.Sprintf("reader returns an I/O error at offset %d of %d (%s), %d decoders", c.off, len(f.Data), where, c.procs)
				r.Out.Fault("io-error-at-offset")
			}
		case "flip":
			b := f.Blocks[c.pos]
			if b.PayloadOff < 0 || b.PayloadOff+c.off >= b.End {
				continue
			}
			data := append([]byte(nil), f.Data...)
			bit := byte(1) << uint(c.dmg&7)
			data[b.PayloadOff+c.off] ^= bit
			if c.dmg&0x80 != 0 && b.PayloadOff+c.off+1 < b.End {
				data[b.PayloadOff+c.off+1] ^= byte(c.dmg>>3) | 1 // a second damaged byte
			}
			cfg.data = data
			for _, pb := range f.Blocks[:c.pos] {
				want = append(want, pb.Objs...)
			}
			class = "C06/bitflip"
			desc = fmt.Sprintf("bit flip at byte %d (mask %#x) of the raw PrimitiveBlock of data block %d, %d decoders", c.off, bit, c.pos, c.procs)
			r.Out.Fault("bit-flip-in-raw-block")
		case "dmg":
			d := dm[c.dmg]
			blk := d.block()
			var data []byte
			if d.header {
				data = append(data, blk...)
				data = append(data, f.Data[f.HeaderEnd:]...)
			} else {
				b := f.Blocks[c.pos]
				data = append(data, f.Data[:b.Offset]...)
				data = append(data, blk...)
				data = append(data, f.Data[b.End:]...)
				for _, pb := range f.Blocks[:c.pos] {
					want = append(want, pb.Objs...)
				}
			}
			cfg.data = data
			posName := "header"
			if !d.header {
				posName = []string{"first", "middle", "last"}[func() int {
					switch {
					case c.pos == 0:
						return 0
					case c.pos == len(f.Blocks)-1:
						return 2
					}
					return 1
				}()]
			}
			class = "C06/damage/" + d.name
			desc = fmt.Sprintf("damage %s at %s block (index %d), %d decoders", d.name, posName, c.pos, c.procs)
			r.Out.Fault("damage:" + d.name)
		}
		res := runScan(t, cfg)
		addSim(r.Out, &res, wl^uint64(ci+1)*0x9e37, true)
		if res.reader.fired {
			r.Out.Probe("io-error-returned")
		}
		if sym, msg := symptom(&res); sym != "" {
			if c.kind == "flip" && sym == "crash" && len(res.sim.Crashes) > 0 {
				// a flip can produce any kind of damage: the class names the panic so that different crashes stay apart
				sym = "crash/" + panicSlug(res.sim.Crashes[0].Value)
			}
			r.Out.Violate(class+"/"+sym, "%s%s: %s", pinStr, desc, msg)
			r.Out.Trace = res.sim.Trace
			continue
		}
		if !res.closeOK {
			r.Out.Violate(class+"/close-did-not-return", "%s%s", pinStr, desc)
			continue
		}
		if c.kind == "flip" {
			// the flip may or may not be detectable; only the prefix and the absence of crash/hang are asserted
			if len(res.objs) < len(want) || sameObjs(want, res.objs[:len(want)]) != "" {
				r.Out.Violate(class+"/wrong-prefix", "%s%s: the objects of the intact blocks before the damaged one were not delivered first (got %d objects, err=%v)", pinStr, desc, len(res.objs), res.err)
			} else if res.err != nil {
				r.Out.Probe("bit-flip-detected")
			} else {
				r.Out.Probe("bit-flip-undetected")
			}
			continue
		}
		if m := sameObjs(want, res.objs); m != "" {
			r.Out.Violate(class+"/wrong-objects", "%s%s: delivered objects are not exactly those of the intact blocks before the fault: %s (err=%v)", pinStr, desc, m, res.err)
			r.Out.Trace = res.sim.Trace
			continue
		}
		if wantErr && res.err == nil {
			r.Out.Violate(class+"/reported-success", "%s%s: Scan stopped after %d objects and Err()==nil", pinStr, desc, len(res.objs))
			r.Out.Trace = res.sim.Trace
			continue
		}
		if !wantErr && res.err != nil {
			r.Out.Violate(class+"/error-on-block-boundary", "%s%s: cut on a block boundary must report success, got %v", pinStr, desc, res.err)
			r.Out.Trace = res.sim.Trace
			continue
		}
		if wantErr {
			r.Out.Probe("error-after-correct-prefix")
			if len(want) > 0 {
				r.Out.Probe("error-after-nonempty-prefix")
			}
		} else {
			r.Out.Probe("clean-end-on-boundary")
		}
	}
	r.Out.Scenario = map[string]interface{}{
		"file_bytes": len(f.Data), "header": f.Header.Present, "blocks": len(f.Blocks), "cases_in_file": len(cases),
		"block_signatures": func() []string {
			var s []string
			for _, b := range f.Blocks {
				s = append(s, fmt.Sprintf("[%d,%d) %d objs %s", b.Offset, b.End, len(b.Objs), b.Sig))
			}
			return s
		}(),
	}
}
