package pbfsim

import (
	"context"
	"errors"
	"fmt"
	"strings"
	"testing"
	"time"

	"github.com/paulmach/osm"
	"github.com/paulmach/osm/osmpbf"
	"github.com/paulmach/osm/osmxml"
	"github.com/paulmach/osm/simrt"

	"h/kit"
	"h/pbfwire"
	"h/simu"
)

// call is one API call of the recorded history.
type call struct {
	name   string
	t0, t1 int64
	ok     bool
	id     osm.ObjectID
	err    error
}

type scanner interface {
	Scan() bool
	Object() osm.Object
	Err() error
	Close() error
}

type c07cfg struct {
	xml       bool
	procs     int
	header    bool
	k         int    // scans before the stop (self stop modes); with a canceller: scans until false
	mode      int    // 0 Close, 1 cancel by the scanning goroutine, 2 cancel by a second goroutine
	delayQ    int64  // canceller delay in quanta
	tail      []byte // further calls after the stop: 's' Scan, 'e' Err, 'c' Close
	afterBare bool   // after a bare cancel, wait for quiescence and check the goroutine registry before Close
}

type c07res struct {
	calls           []call
	stopInvoked     int64
	stopReturned    int64
	closeCalled     bool
	cancelCalled    bool
	liveAfterClose  []string
	liveAfterCancel []string
	checkedBare     bool
	sim             simu.Result
	reader          *simReader
	policy          string
	t0              int64
}

func runC07exec(t *testing.T, data []byte, c c07cfg, sched kit.SchedCfg, tape *kit.Tape, trace bool) (res c07res) {
	cfg := simu.Cfg{Sched: sched, Name: "consumer", KeepTrace: trace}
	res.policy = drawPolicy(tape, &cfg)
	rd := newReader(tape, data, sched.Seed)
	if len(data) > 2048 && rd.mode != 0 {
		// long inputs: chunks of 1..k bytes with k >= 64 (a delay point per byte would only slow the run down)
		rd.mode = 2
		if rd.k < 64 {
			rd.k = 64
		}
	}
	res.reader = rd
	res.sim = simu.Run(t, cfg, func(sim *simrt.Sim, root context.Context) {
		now := func() int64 { return time.Now().UnixNano() }
		res.t0 = now()
		ctx, cancel := context.WithCancel(context.Background())
		defer cancel()
		var sc scanner
		var psc *osmpbf.Scanner
		if c.xml {
			sc = osmxml.New(ctx, rd)
		} else {
			psc = osmpbf.New(ctx, rd, c.procs)
			sc = psc
		}
		rec := func(name string, f func(*call)) {
			simrt.Yield("consumer." + name)
			cl := call{name: name, t0: now()}
			f(&cl)
			cl.t1 = now()
			res.calls = append(res.calls, cl)
		}
		scan := func() bool {
			var ok bool
			rec("Scan", func(cl *call) {
				ok = sc.Scan()
				cl.ok = ok
				if ok {
					if o := sc.Object(); o != nil {
						cl.id = o.ObjectID()
					}
				}
			})
			return ok
		}
		if c.header && psc != nil {
			rec("Header", func(cl *call) { _, cl.err = psc.Header() })
		}
		var cdone chan [2]int64
		if c.mode == 2 {
			cdone = make(chan [2]int64, 1)
			d := time.Duration(c.delayQ * simrt.Q)
			simrt.GoNamed("canceller", func() {
				time.Sleep(d)
				simrt.Yield("canceller.cancel")
				a := now()
				cancel()
				cdone <- [2]int64{a, now()}
			})
			for i := 0; sim.Aborted() == "" && i < 100000; i++ {
				if !scan() {
					break
				}
			}
		} else {
			for i := 0; i < c.k && sim.Aborted() == ""; i++ {
				if !scan() {
					// natural end before k: keep going with the stop anyway
					break
				}
			}
			simrt.Yield("consumer.stop")
			res.stopInvoked = now()
			if c.mode == 0 {
				res.closeCalled = true
				sc.Close()
				res.stopReturned = now()
			} else {
				res.cancelCalled = true
				cancel()
				res.stopReturned = now()
			}
		}
		for _, op := range c.tail {
			if sim.Aborted() != "" {
				break
			}
			switch op {
			case 's':
				scan()
			case 'e':
				rec("Err", func(cl *call) { cl.err = sc.Err() })
			case 'c':
				rec("Close", func(cl *call) { sc.Close() })
				res.closeCalled = true
			}
		}
		if c.mode == 2 {
			// wait for the canceller (the cancel may not have happened yet when the scan ended early)
			v := <-cdone
			res.stopInvoked, res.stopReturned = v[0], v[1]
			res.cancelCalled = true
			rec("Scan", func(cl *call) { cl.ok = sc.Scan() })
			rec("Err", func(cl *call) { cl.err = sc.Err() })
		}
		if !res.closeCalled && c.afterBare {
			// bare cancel: once the simulation is quiescent every goroutine of the scanner must be gone
			time.Sleep(10 * time.Hour)
			res.liveAfterCancel = sim.LiveLib()
			res.checkedBare = true
		}
		if !res.closeCalled {
			rec("Close", func(cl *call) { sc.Close() })
			res.closeCalled = true
		}
		// "all goroutines the scanner started terminate": a goroutine may still be running its deferred
		// calls at the instant Close returns, so the registry is read once the simulation is quiescent
		time.Sleep(10 * time.Hour)
		res.liveAfterClose = sim.LiveLib()
	})
	return
}

func genXML(t *kit.Tape, n int) ([]byte, []osm.ObjectID, []int) {
	var sb strings.Builder
	var ids []osm.ObjectID
	var ends []int // offset just after each element
	sb.WriteString("<?xml version=\"1.0\" encoding=\"UTF-8\"?>\n<osm version=\"0.6\" generator=\"verif\">\n")
	id := int64(0)
	// a few long runs of tokens that are not objects (comments, unknown elements, whitespace): a single Scan
	// call then spans many reads, so a cancel can land deep inside it
	junkAt := map[int]bool{}
	for k := t.Draw(4); k > 0; k-- {
		junkAt[t.Draw(n)] = true
	}
	for i := 0; i < n; i++ {
		if junkAt[i] {
			for k := 300 + t.Draw(500); k > 0; k-- {
				sb.WriteString(" <!-- filler --><meta osm_base=\"2026-10-03T00:00:00Z\"/>\n")
			}
		}
		id += 1 + int64(t.Draw(3))
		switch t.Draw(3) {
		case 0:
			fmt.Fprintf(&sb, " <node id=\"%d\" version=\"%d\" lat=\"%d.5\" lon=\"-%d.25\" user=\"u&amp;%d\" visible=\"true\">", id, 1+t.Draw(4), t.Draw(80), t.Draw(170), t.Draw(9))
			for k := t.Draw(3); k > 0; k-- {
				fmt.Fprintf(&sb, "<tag k=\"k%d\" v=\"some value %d\"/>", k, t.Draw(100))
			}
			sb.WriteString("</node>\n")
			ids = append(ids, (&osm.Node{ID: osm.NodeID(id)}).ObjectID())
			ends = append(ends, sb.Len())
		case 1:
			fmt.Fprintf(&sb, " <way id=\"%d\" version=\"%d\">", id, 1+t.Draw(4))
			for k := 2 + t.Draw(6); k > 0; k-- {
				fmt.Fprintf(&sb, "<nd ref=\"%d\"/>", 1+t.Draw(500))
			}
			sb.WriteString("<tag k=\"highway\" v=\"residential\"/></way>\n")
			ids = append(ids, (&osm.Way{ID: osm.WayID(id)}).ObjectID())
			ends = append(ends, sb.Len())
		default:
			fmt.Fprintf(&sb, " <relation id=\"%d\" version=\"%d\">", id, 1+t.Draw(4))
			for k := t.Draw(4); k > 0; k-- {
				fmt.Fprintf(&sb, "<member type=\"way\" ref=\"%d\" role=\"outer\"/>", 1+t.Draw(500))
			}
			sb.WriteString("</relation>\n")
			ids = append(ids, (&osm.Relation{ID: osm.RelationID(id)}).ObjectID())
			ends = append(ends, sb.Len())
		}
	}
	sb.WriteString("</osm>\n")
	return []byte(sb.String()), ids, ends
}

// versionless strips the version bits of an object id so that model and delivered ids compare by kind and ref.
func versionless(id osm.ObjectID) string { return fmt.Sprintf("%s/%d", id.Type(), id.Ref()) }

func runC07(t *testing.T, r *kit.Run) {
	tp := r.Tape
	var c c07cfg
	c.xml = tp.Chance(1, 4)
	c.mode = tp.Draw(3)
	c.header = tp.Bool()
	c.procs = []int{1, 2, 3, 5, 11, 16}[tp.Draw(6)]
	var data []byte
	var model []string
	var blocks []pbfwire.BlockModel
	xmlCut := false
	kind := "pbf"
	if c.xml {
		kind = "xml"
		n := 300 + tp.Draw(300)
		var ids []osm.ObjectID
		var ends []int
		data, ids, ends = genXML(tp, n)
		for _, id := range ids {
			model = append(model, versionless(id))
		}
		// 1 XML history in 6 is cut inside an element: the scan ends there with a syntax error recorded before the stop
		if tp.Chance(1, 6) {
			i := 1 + tp.Draw(len(ends)/3)
			data = data[:ends[i]-3]
			model = model[:i]
			xmlCut = true
		}
	} else {
		f := pbfwire.Gen(tp, pbfwire.Opts{MinBlocks: 40, MaxBlocks: 80, MaxGroups: 2, MinElems: 10, MaxElems: 30, Procs: c.procs, HeaderlessOneIn: 4})
		data = f.Data
		blocks = f.Blocks
		for _, o := range f.Objects() {
			model = append(model, versionless(o.ObjectID()))
		}
	}
	// 1 PBF history in 6 has a damaged block: the scan must stop there with an error, and that error,
	// recorded earlier, must still be what Err reports after the stop
	damaged := ""
	if xmlCut {
		damaged = "xml-document-cut-inside-an-element"
		if c.mode == 2 {
			c.mode = tp.Draw(2)
		}
	}
	if !c.xml && len(blocks) > 6 && tp.Chance(1, 6) {
		dm := damages()
		var usable []damage
		for _, d := range dm {
			if !d.header && d.name != "zlib-truncated-in-trailer" {
				usable = append(usable, d)
			}
		}
		d := usable[tp.Draw(len(usable))]
		at := 1 + tp.Draw(len(blocks)/3)
		b := blocks[at]
		nd := append([]byte(nil), data[:b.Offset]...)
		nd = append(nd, d.block()...)
		nd = append(nd, data[b.End:]...)
		data = nd
		model = nil
		for _, pb := range blocks[:at] {
			for _, o := range pb.Objs {
				model = append(model, versionless(o.ObjectID()))
			}
		}
		damaged = d.name
		if c.mode == 2 {
			c.mode = tp.Draw(2)
		}
	}
	// 1 PBF history in 12 cannot even start: the input is empty or ends inside its first block. Scan is false at once,
	// and Close (e.g. a deferred one) must still return
	if !c.xml && damaged == "" && tp.Chance(1, 12) {
		firstEnd := len(data)
		if len(blocks) > 0 {
			firstEnd = blocks[0].Offset
			if firstEnd == 0 {
				firstEnd = blocks[0].End
			}
		}
		cutAt := tp.Draw(firstEnd)
		data = data[:cutAt]
		model = nil
		blocks = nil
		damaged = "input-ends-inside-first-block"
		if cutAt == 0 {
			damaged = "" // an empty input is a complete (empty) scan
			r.Out.Probe("empty-input")
		}
		if c.mode == 2 {
			c.mode = tp.Draw(2)
		}
	}
	total := len(model)
	if damaged != "" {
		c.k = total + 2 // run into the error, then stop
	} else if tp.Chance(3, 4) {
		c.k = tp.Draw(total/3 + 1)
	} else {
		c.k = tp.Draw(total + 3)
	}
	c.delayQ = int64(1) << uint(tp.Draw(17))
	c.delayQ = c.delayQ * int64(1+tp.Draw(8)) / 8
	tails := []string{"se", "e", "sse", "ces", "ecse", "s", "", "cc"}
	c.tail = []byte(tails[tp.Draw(len(tails))])
	c.afterBare = tp.Bool()
	wl := kit.HashStr(6, string(data))
	r.Out.Workload = wl

	res := runC07exec(t, data, c, r.Sched, tp, r.Replay)
	modeName := []string{"Close", "cancel-by-scanning-goroutine", "cancel-by-second-goroutine"}[c.mode]
	r.Out.Fault(modeName)
	desc := fmt.Sprintf("%s scanner, %d decoders, input %d bytes / %d objects, stop=%s after k=%d (canceller delay %d quanta), then %q", kind, c.procs, len(data), total, modeName, c.k, c.delayQ, string(c.tail))
	if c.xml {
		desc = fmt.Sprintf("xml scanner, input %d bytes / %d objects, stop=%s after k=%d (canceller delay %d quanta), then %q", len(data), total, modeName, c.k, c.delayQ, string(c.tail))
	}
	cls := "C07/" + kind

	// the effective stop is the earliest of the scripted stop and any Close call of the script
	for _, cl := range res.calls {
		if cl.name == "Close" {
			if res.stopInvoked == 0 || cl.t0 < res.stopInvoked {
				res.stopInvoked = cl.t0
			}
			if res.stopReturned == 0 || cl.t1 < res.stopReturned {
				res.stopReturned = cl.t1
			}
		}
	}
	// where was the reader when the stop was invoked, how much did it hand out afterwards
	posAtStop, after := 0, 0
	for _, e := range res.reader.log {
		if e.T <= res.stopInvoked {
			posAtStop = e.Pos + e.N
		} else {
			after += e.N
		}
	}
	allowance := 4096 + 512
	if !c.xml {
		allowance = 4096
		for i, b := range blocks {
			if posAtStop >= b.Offset && posAtStop < b.End {
				allowance += b.End - posAtStop
				if i+1 < len(blocks) {
					allowance += blocks[i+1].End - blocks[i+1].Offset
				}
			}
			if posAtStop == b.End && i+1 < len(blocks) {
				allowance += blocks[i+1].End - blocks[i+1].Offset
			}
		}
	}
	if damaged != "" {
		allowance = len(data) // promptness is not judged on a stream that already failed
		r.Out.Fault("damaged-block:" + damaged)
		desc += "; block damaged: " + damaged
	}
	remaining := len(data) - posAtStop
	inFlight := posAtStop > 0 && remaining > 0 && res.stopInvoked > 0
	longTail := remaining >= 3*allowance
	nontrivial := inFlight
	r.Out.Evals++
	if n := len(res.calls); n > 0 && res.calls[n-1].t1 > res.t0 {
		r.Out.SimNanos += res.calls[n-1].t1 - res.t0 // up to the last API call; the quiescence waits are not counted
	}
	r.Out.Yields += res.sim.Yields
	r.Out.Scheds = append(r.Out.Scheds, res.sim.SchedHash)
	r.Out.States = append(r.Out.States, res.sim.States...)
	if nontrivial {
		r.Out.NonTrivial++
		r.Out.Pairs = append(r.Out.Pairs, kit.Mix(wl^res.sim.SchedHash^uint64(c.k)<<32^uint64(c.mode)<<60))
		r.Out.Probe("stop-landed-with-input-in-flight")
	}
	if longTail {
		r.Out.Probe("stop-with-long-unread-tail")
	}
	if c.procs > 10 && !c.xml {
		r.Out.Probe("unbuffered-channels")
	}
	if !c.xml && len(blocks) > 0 && blocks[0].Offset == 0 {
		r.Out.Probe("stream-starts-with-a-data-block")
	}
	delivered := 0
	for _, cl := range res.calls {
		if cl.name == "Scan" && cl.ok {
			delivered++
		}
	}
	if c.mode == 2 {
		for _, cl := range res.calls {
			if cl.name == "Scan" && cl.t0 < res.stopReturned && cl.t1 > res.stopInvoked {
				r.Out.Probe("cancel-landed-inside-a-Scan-call")
				break
			}
		}
	}
	if delivered >= total {
		r.Out.Probe("stop-after-end-of-input")
	}
	r.Out.Scenario = map[string]interface{}{"scanner": kind, "decoders": c.procs, "input_bytes": len(data), "objects": total, "stop": modeName, "k": c.k, "canceller_delay_quanta": c.delayQ,
		"calls_after_stop": string(c.tail), "policy": res.policy, "reader_pos_at_stop": posAtStop, "bytes_read_after_stop": after, "allowance": allowance, "delivered": delivered}

	// process-level symptoms
	s := &res.sim
	r.Out.Trace = s.Trace
	if r.Replay {
		r.Out.Goroutines = s.Goroutines
	}
	switch {
	case len(s.Crashes) > 0:
		r.Out.Violate(cls+"/crash", "%s: panic in library goroutine %s: %s", desc, s.Crashes[0].G, s.Crashes[0].Value)
		r.Out.Trace = s.Trace
		if r.Replay {
			r.Out.Goroutines = s.Goroutines
		}
		return
	case s.CallerPanic != "":
		r.Out.Violate(cls+"/crash", "%s: panic in the calling goroutine: %s", desc, s.CallerPanic)
		return
	case s.Aborted == "budget":
		r.Out.Violate(cls+"/no-progress-within-step-budget", "%s", desc)
		return
	case s.Hang != "" && !s.BodyDone:
		r.Out.Violate(cls+"/deadlock", "%s: all goroutines blocked: %v", desc, s.Blocked)
		r.Out.Trace = s.Trace
		if r.Replay {
			r.Out.Goroutines = s.Goroutines
		}
		return
	case s.Hang != "":
		r.Out.Violate(cls+"/goroutine-left-blocked", "%s: goroutines blocked for good after the scanner was closed: %v", desc, s.Blocked)
		return
	}

	// 1. sequential scanner model over the history
	j := 0
	sawFalse := false
	errorBeforeStop := false // the damaged block ended the scan before anything stopped it
	for _, cl := range res.calls {
		if cl.name != "Scan" {
			continue
		}
		afterStop := res.stopReturned > 0 && cl.t0 > res.stopReturned
		if cl.ok {
			if afterStop {
				r.Out.Violate(cls+"/scan-true-after-stop", "%s: a Scan invoked after the stop had returned delivered %s", desc, cl.id)
				r.Out.Trace = s.Trace
				if r.Replay {
					r.Out.Goroutines = s.Goroutines
				}
				return
			}
			if sawFalse {
				r.Out.Violate(cls+"/scan-true-after-false", "%s: Scan returned true after it had returned false", desc)
				return
			}
			if j >= total || versionless(cl.id) != model[j] {
				want := "<end of input>"
				if j < total {
					want = model[j]
				}
				r.Out.Violate(cls+"/wrong-object", "%s: successful Scan %d delivered %s, the input has %s there", desc, j, versionless(cl.id), want)
				return
			}
			j++
		} else {
			sawFalse = true
			stopped := res.stopInvoked > 0 && cl.t1 > res.stopInvoked
			if damaged != "" && j == total && !stopped {
				errorBeforeStop = true
			}
			if j < total && !stopped {
				r.Out.Violate(cls+"/scan-false-before-end-without-stop", "%s: Scan returned false after %d of %d objects although nothing had stopped it yet", desc, j, total)
				return
			}
		}
	}
	// Err after the stop
	for _, cl := range res.calls {
		if cl.name != "Err" || res.stopReturned == 0 || cl.t0 < res.stopReturned {
			continue
		}
		closedBefore := false
		for _, c2 := range res.calls {
			if c2.name == "Close" && c2.t1 <= cl.t0 {
				closedBefore = true
			}
		}
		if c.mode == 0 {
			closedBefore = true
		}
		cancelled := res.cancelCalled
		if errorBeforeStop {
			r.Out.Probe("error-recorded-before-the-stop")
			if cl.err == nil || errors.Is(cl.err, osm.ErrScannerClosed) || errors.Is(cl.err, context.Canceled) {
				r.Out.Violate(cls+"/earlier-error-lost-after-stop", "%s: the scan had ended with an error at the damaged block before the stop; afterwards Err() = %v", desc, cl.err)
				return
			}
			continue
		}
		switch {
		case cl.err == nil:
			// nil is right after a complete scan: every object delivered and the end of input seen by a Scan - or by
			// Header() when the input is empty (Header reads an empty stream to its end, which completes the scan)
			if !(delivered >= total && (sawFalse || len(data) == 0)) {
				r.Out.Violate(cls+"/err-nil-after-stop", "%s: Err()==nil after the stop although only %d of %d objects were delivered", desc, delivered, total)
				return
			}
		case errors.Is(cl.err, osm.ErrScannerClosed):
			if !closedBefore {
				r.Out.Violate(cls+"/err-closed-without-close", "%s: Err() reports the scanner-closed error but Close was never called", desc)
				return
			}
		case errors.Is(cl.err, context.Canceled):
			if !cancelled {
				r.Out.Violate(cls+"/err-canceled-without-cancel", "%s: Err() reports context.Canceled but the caller's context was never cancelled (Close was called)", desc)
				return
			}
		default:
			r.Out.Violate(cls+"/err-unexpected", "%s: Err() = %v", desc, cl.err)
			return
		}
	}
	// 2. promptness
	if res.stopInvoked > 0 && after > allowance {
		r.Out.Violate(cls+"/stop-consumed-more-input-than-allowed", "%s: reader was at %d of %d when the stop was invoked; %d further bytes were pulled (allowance: rest of the block in flight + one block + 4096 = %d)", desc, posAtStop, len(data), after, allowance)
		r.Out.Trace = s.Trace
		if r.Replay {
			r.Out.Goroutines = s.Goroutines
		}
		return
	}
	// 3. goroutines
	if len(res.liveAfterClose) > 0 {
		r.Out.Violate(cls+"/goroutines-alive-after-close", "%s: still alive long after Close returned: %v", desc, res.liveAfterClose)
		return
	}
	if res.checkedBare {
		r.Out.Probe("bare-cancel-quiescence-checked")
		if len(res.liveAfterCancel) > 0 {
			r.Out.Violate(cls+"/goroutines-alive-after-cancel", "%s: still alive long after the context was cancelled (no Close): %v", desc, res.liveAfterCancel)
			return
		}
	}
}
