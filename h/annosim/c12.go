package annosim

import (
	"fmt"
	"sort"
	"strings"
	"testing"

	"github.com/paulmach/osm"

	"h/kit"
)

// C12 — annotation is deterministic and orders updates by index, time, version.
//
// A run is a batch of generated histories. Each history is annotated c12K times on fresh
// copies, each time under a different iteration order of the child-location map (the only
// nondeterminism annotation can see): sorted, reverse (sorted order over mirrored child ids)
// and six seeded permutations.

const c12Batch = 24
const c12K = 8

func pinOf(r *kit.Run) int {
	if v, ok := r.Param("h"); ok {
		return int(v)
	}
	return -1
}

func runC12(t *testing.T, r *kit.Run) {
	pin := pinOf(r)
	var wl uint64
	sampled := false
	for hi := 0; hi < c12Batch; hi++ {
		// a low rate of long histories (up to 240 uploads): code that treats long parent histories differently
		// (batching, parallel sorting above a size) never runs on the usual 1-16 uploads
		mu := 16
		if r.Tape.Chance(1, 48) {
			mu = 240
		}
		h := genHistory(r.Tape, genOpts{hard: true, allowInconsistent: true, pre: true, maxUploads: mu, maxKids: 6})
		if len(h.parents) >= 64 {
			r.Out.ProbeN("histories-with-64-or-more-parent-versions", 1)
		}
		faulty := r.Tape.Chance(1, 5)
		p := genPlan(r.Tape, h, faulty)
		var ao annOpts
		if faulty {
			ao.ignoreMissing = r.Tape.Chance(1, 4)
			ao.ignoreInconsistent = r.Tape.Chance(1, 4)
		} else if h.inconsistent {
			ao.ignoreInconsistent = r.Tape.Chance(1, 3)
		}
		wl = kit.Mix(wl ^ h.hash())
		if pin >= 0 && hi != pin {
			continue
		}
		nt := c12History(t, r, hi, h, p, ao)
		if (nt && !sampled) || pin >= 0 {
			sampled = true
			sc := h.summary()
			sc["faults"] = p.describe()
			if pin >= 0 || r.Replay {
				sc["log"] = h.log
			}
			r.Out.Scenario = sc
		}
	}
	r.Out.Workload = wl
}

type c12exec struct {
	name  string
	res   execRes
	canon string
	kind  string // "" success, otherwise the error kind
}

// c12History executes one history under the K map orders and applies the oracle.
// It reports whether the history was non-trivial.
func c12History(t *testing.T, r *kit.Run, hi int, h *history, p *plan, ao annOpts) bool {
	o := r.Out
	pinStr := fmt.Sprintf("[[h=%d]] ", hi)
	desc := fmt.Sprintf("%s %s, %s regime, threshold %v, %d parent versions, %d children", typeNames[h.parent.typ], h.parent, h.regime, h.th, len(h.parents), len(h.kidKeys))

	type orderCfg struct {
		name   string
		sched  kit.SchedCfg
		mirror bool
	}
	orders := []orderCfg{{"sorted", kit.SchedCfg{Flat: true}, false}}
	if !r.Sched.Flat {
		orders = append(orders, orderCfg{"reverse", kit.SchedCfg{Flat: true}, true})
		for k := 2; k < c12K; k++ {
			orders = append(orders, orderCfg{fmt.Sprintf("seeded-%d", k-1), kit.SchedCfg{Seed: kit.Mix(r.Sched.Seed + uint64(hi)*64 + uint64(k))}, false})
		}
	}

	execs := make([]c12exec, len(orders))
	reported := map[string]bool{}
	violate := func(class, f string, a ...interface{}) {
		if reported[class] {
			return
		}
		reported[class] = true
		o.Violate(class, pinStr+desc+": "+f, a...)
	}
	distinctOrders := map[uint64]bool{}
	nOK, nErr := 0, 0
	for k, oc := range orders {
		e := &execs[k]
		e.name = oc.name
		e.res = h.run(t, p, oc.sched, oc.mirror, ao)
		o.Evals++
		oh := e.res.ds.orderHash()
		if oc.mirror {
			oh = kit.Mix(oh)
		}
		o.Scheds = append(o.Scheds, oh)
		distinctOrders[oh] = true
		if e.res.panicMsg != "" {
			violate("C12/crash", "panic under map order %q: %s", oc.name, e.res.panicMsg)
			e.kind = "panic"
			nErr++
			continue
		}
		if e.res.err != nil {
			e.kind = errKind(e.res.err)
			nErr++
			continue
		}
		nOK++
		if m := h.refsIntact(e.res.parents, oc.mirror); m != "" {
			violate("C12/child-references-changed", "map order %q: %s", oc.name, m)
		}
		e.canon = canon(e.res.parents)
		for i := range e.res.parents {
			pv := &e.res.parents[i]
			if kind, at := orderViolation(pv.updates); kind != "" {
				a, b := pv.updates[at-1], pv.updates[at]
				violate("C12/update-order/"+kind, "parent v%d has %d updates; under map order %q positions %d and %d are {index %d, child v%d, time %s} then {index %d, child v%d, time %s}; list: %s",
					pv.version, len(pv.updates), oc.name, at-1, at, a.Index, a.Version, a.Timestamp.Format("15:04:05.000"), b.Index, b.Version, b.Timestamp.Format("15:04:05.000"), shortUpdates(pv.updates))
			}
		}
	}
	// faults that fired (taken from the first execution: the plan is the same for all)
	for _, name := range sortedStrs(execs[0].res.ds.fired) {
		o.Fault(name)
	}
	if h.inconsistent {
		o.Fault("child-deleted-while-referenced")
	}

	// all fail or all succeed
	if nOK > 0 && nErr > 0 {
		var parts []string
		for _, e := range execs {
			k := e.kind
			if k == "" {
				k = "success"
			}
			parts = append(parts, e.name+"="+k)
		}
		violate("C12/map-order-dependent-success", "some map orders succeed and others fail: %s", strings.Join(parts, ", "))
	}
	if nErr == len(execs) {
		o.Probe("all-orders-failed")
		kinds := map[string]bool{}
		for _, e := range execs {
			kinds[e.kind] = true
		}
		if len(kinds) > 1 {
			o.Probe("first-reported-error-differs-between-orders")
		}
	}
	// identical results
	first := -1
	for k := range execs {
		if execs[k].kind != "" {
			continue
		}
		if first < 0 {
			first = k
			continue
		}
		if execs[k].canon == execs[first].canon {
			continue
		}
		class, msg := c12Diff(execs[first].res.parents, execs[k].res.parents)
		violate("C12/map-order-dependent-result/"+class, "map orders %q and %q give different results: %s", execs[first].name, execs[k].name, msg)
	}

	// probes and non-triviality
	nontrivial := false
	if len(distinctOrders) > 1 {
		o.Probe("map-orders-distinct")
	}
	if h.parent.typ == tRel {
		o.Probe("relation-parent")
	}
	if h.regime != "commit" {
		o.Probe("pre-commit-regime")
	}
	if h.dates == "late" || h.dates == "straddling" {
		o.Probe("no-committed-values-on-or-after-2012-09-12")
	}
	if first >= 0 {
		big, ties, multi := false, false, false
		for i := range execs[first].res.parents {
			pv := &execs[first].res.parents[i]
			if len(pv.updates) > 12 {
				big = true
			}
			for k := 1; k < len(pv.updates); k++ {
				a, b := pv.updates[k-1], pv.updates[k]
				if a.Index == b.Index && a.Timestamp.Equal(b.Timestamp) && a.ChangesetID != b.ChangesetID {
					o.Probe("tied-updates-from-different-changesets")
					if (a.Version < b.Version) != (a.ChangesetID < b.ChangesetID) {
						o.Probe("tied-updates-with-changeset-ids-not-rising-with-versions")
					}
				}
			}
			seen := map[string]bool{}
			for _, u := range pv.updates {
				key := fmt.Sprintf("%d/%d", u.Index, u.Timestamp.UnixNano())
				if seen[key] {
					ties = true
				}
				seen[key] = true
			}
			ids := map[string]int{}
			for _, s := range pv.slots {
				ids[fmt.Sprintf("%d/%d", s.typ, s.id)]++
			}
			for _, n := range ids {
				if n > 1 && len(pv.updates) > 0 {
					multi = true
				}
			}
		}
		if big {
			o.Probe("parent-with-more-than-12-updates")
		}
		if ties {
			o.Probe("updates-sharing-index-and-timestamp")
		}
		if big && ties {
			o.Probe("more-than-12-updates-with-ties")
		}
		if multi {
			o.Probe("child-at-several-indexes-with-updates")
		}
		nontrivial = big || ties
	}
	for i := range h.parents {
		if !h.parents[i].visible {
			o.Probe("deleted-parent-version")
			break
		}
	}
	if nontrivial {
		o.NonTrivial += len(execs)
		hh := h.hash()
		for k := range execs {
			oh := execs[k].res.ds.orderHash()
			if orders[k].mirror {
				oh = kit.Mix(oh)
			}
			o.Pairs = append(o.Pairs, kit.Mix(hh^oh))
		}
	}
	return nontrivial
}

func sortedStrs(m map[string]int) []string {
	out := make([]string, 0, len(m))
	for k := range m {
		out = append(out, k)
	}
	sort.Strings(out)
	return out
}

func shortUpdates(us osm.Updates) string {
	var parts []string
	for i, u := range us {
		if i >= 40 {
			parts = append(parts, "…")
			break
		}
		parts = append(parts, fmt.Sprintf("%d:v%d@%s", u.Index, u.Version, u.Timestamp.Format("15:04:05")))
	}
	return strings.Join(parts, " ")
}

// c12Diff classifies the difference between two successful results.
func c12Diff(a, b []pver) (class, msg string) {
	for i := range a {
		if i >= len(b) {
			break
		}
		if canonSlots(&a[i]) != canonSlots(&b[i]) {
			return "annotated-children-differ", fmt.Sprintf("parent v%d children [%s] vs [%s]", a[i].version, canonSlots(&a[i]), canonSlots(&b[i]))
		}
		ua, ub := canonUpdates(a[i].updates), canonUpdates(b[i].updates)
		if ua == ub {
			continue
		}
		na, nb := normUpdates(a[i].updates), normUpdates(b[i].updates)
		if canonUpdates(na) == canonUpdates(nb) {
			sameKeys := len(a[i].updates) == len(b[i].updates)
			for k := 0; sameKeys && k < len(a[i].updates); k++ {
				x, y := a[i].updates[k], b[i].updates[k]
				if x.Index != y.Index || !x.Timestamp.Equal(y.Timestamp) {
					sameKeys = false
				}
			}
			if !sameKeys {
				return "update-order-differs", fmt.Sprintf("parent v%d (%d updates): [%s] vs [%s]", a[i].version, len(a[i].updates), shortUpdates(a[i].updates), shortUpdates(b[i].updates))
			}
			return "order-of-updates-sharing-index-and-timestamp", fmt.Sprintf("parent v%d (%d updates): [%s] vs [%s]", a[i].version, len(a[i].updates), shortUpdates(a[i].updates), shortUpdates(b[i].updates))
		}
		return "update-sets-differ", fmt.Sprintf("parent v%d: [%s] vs [%s]", a[i].version, shortUpdates(a[i].updates), shortUpdates(b[i].updates))
	}
	return "other", "serialisations differ"
}

// normUpdates returns the list sorted by (index, timestamp, version).
func normUpdates(us osm.Updates) osm.Updates {
	out := append(osm.Updates(nil), us...)
	sort.SliceStable(out, func(i, j int) bool {
		a, b := out[i], out[j]
		if a.Index != b.Index {
			return a.Index < b.Index
		}
		if !a.Timestamp.Equal(b.Timestamp) {
			return a.Timestamp.Before(b.Timestamp)
		}
		return a.Version < b.Version
	})
	return out
}
