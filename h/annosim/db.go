// Package annosim is engine B: the annotate package of the instrumented copy runs against a
// simulated OSM database (an event-sourced model on a simulated clock) served through a
// datasource with a fault plan. It decides C12, C13, C14 and C11.
package annosim

import (
	"fmt"
	"sort"
	"strings"
	"time"

	"github.com/paulmach/osm"

	"h/kit"
)

// ---------------------------------------------------------------- the simulated database

// The database is a log of element versions produced by a seeded stream of uploads. An upload
// happens at one instant of the simulated clock ("commit"); every version it writes becomes
// current at that instant. What the model knows and the library is not told directly is that
// commit instant: in the commit-time regime it is exposed as Committed, in the pre-commit
// regime only a skewed element timestamp is.
//
// Truth is time based: the state at time t is the result of applying every version with
// commit <= t, in log order (= version order per element).

const (
	tNode = 0
	tWay  = 1
	tRel  = 2
)

var typeNames = [3]osm.Type{osm.TypeNode, osm.TypeWay, osm.TypeRelation}

// key names an element of the model.
type key struct {
	typ int
	id  int64
}

func (k key) String() string { return fmt.Sprintf("%c%d", "nwr"[k.typ], k.id) }

func keyLess(a, b key) bool {
	if a.typ != b.typ {
		return a.typ < b.typ
	}
	return a.id < b.id
}

// mem is one child reference of a parent version.
type mem struct {
	k    key
	role string
}

// ver is one element version in the log.
type ver struct {
	k         key
	version   int
	visible   bool
	ts        time.Time // element timestamp (what the API reports)
	commit    time.Time // the instant the version became current (truth)
	hasCommit bool      // Committed is exposed to the library
	cs        osm.ChangesetID
	upload    int
	lat, lon  float64 // nodes
	refs      []int64 // child ways: node refs
	mems      []mem   // parent versions: children
}

func (v *ver) String() string {
	vis := ""
	if !v.visible {
		vis = " deleted"
	}
	return fmt.Sprintf("%s v%d%s", v.k, v.version, vis)
}

// history is one generated database history: one parent element and its children.
type history struct {
	regime       string // "commit" | "pre" | "mixed" (pre-commit uploads, then commit-time uploads)
	th           time.Duration
	thDefault    bool // the Threshold option is not passed (library default, 30 min)
	parent       key
	parents      []*ver
	kids         map[key][]*ver // never ranged over: use kidKeys
	kidKeys      []key          // sorted
	nOfType      [3]int64
	uploads      []time.Time
	log          []string
	inconsistent bool   // the generator deleted a child while the parent referenced it
	dates        string // pre-commit part: "2009" | "late" (after osm.CommitInfoStart, still no Committed) | "straddling" (crossing it)
	ties         int    // same-second upload pairs (child edit, then parent version under another changeset)
	fwd          []fwdCase
}

var (
	baseCommit = time.Date(2015, 3, 1, 12, 0, 0, 0, time.UTC)
	basePre    = time.Date(2009, 3, 1, 12, 0, 0, 0, time.UTC)
	baseLate   = time.Date(2013, 2, 1, 12, 0, 0, 0, time.UTC) // no Committed values although after osm.CommitInfoStart
)

var thCommit = []time.Duration{30 * time.Minute, 0, time.Second, time.Minute, 2 * time.Hour}
var thPre = []time.Duration{30 * time.Minute, time.Second, time.Minute, 2 * time.Hour, 0}

// fwdCase marks a parent version whose child kid has, inside the threshold window after the
// parent version's timestamp, first a version from a foreign changeset and then one written
// by the parent's own changeset (both logged in the parent version's second).
type fwdCase struct {
	parent int // index into history.parents
	kid    key
}

// genOpts parametrises the history generator.
type genOpts struct {
	hard              bool // C12 bias: bursts of same-instant versions, many child edits, repeated children
	allowInconsistent bool // may delete a child the live parent references
	pre               bool // allow the pre-commit regime
	separated         bool // pre-commit regime only as C11 judges it: uploads > 3*threshold apart, one version of an element per upload, skew < threshold/2
	maxUploads        int
	maxKids           int
}

const (
	opChildEdit = iota
	opParentEdit
	opBurst
	opCreate
	opDelete
	opUndelete
	opParentDelete
)

var opsPlain = []int{opChildEdit, opParentEdit, opChildEdit, opBurst, opCreate, opDelete, opUndelete, opParentDelete, opChildEdit, opParentEdit}
var opsHard = []int{opChildEdit, opBurst, opParentEdit, opChildEdit, opBurst, opBurst, opChildEdit, opCreate, opDelete, opUndelete, opParentDelete, opChildEdit}

type kidState struct {
	exists, visible bool
	version         int
	lastUpload      int
	nv              int
}

// genHistory draws a history from the tape. The all-zero tape gives one node, one way version.
func genHistory(t *kit.Tape, o genOpts) *history {
	h := &history{kids: map[key][]*ver{}, regime: "commit"}
	if o.pre {
		switch t.Draw(5) {
		case 3:
			h.regime = "pre"
		case 4:
			h.regime = "mixed"
		}
	}
	pre := h.regime != "commit" // the history starts before commit times were recorded
	sep := pre && o.separated
	ti := t.Draw(6)
	if ti == 5 {
		ti = 0
		h.thDefault = true
	}
	if pre {
		h.th = thPre[ti]
	} else {
		h.th = thCommit[ti]
	}
	parentRel := t.Draw(2) == 1
	h.parent = key{tWay, 7}
	if parentRel {
		h.parent = key{tRel, 7}
	}
	if o.maxKids == 0 {
		o.maxKids = 6
	}
	if o.maxUploads == 0 {
		o.maxUploads = 12
	}
	nKids := 1 + t.Draw(o.maxKids)
	for i := 0; i < nKids; i++ {
		typ := tNode
		if parentRel {
			typ = t.Draw(3)
		}
		h.nOfType[typ]++
		h.kidKeys = append(h.kidKeys, key{typ, h.nOfType[typ]})
	}
	gen := append([]key(nil), h.kidKeys...) // creation order
	sort.Slice(h.kidKeys, func(i, j int) bool { return keyLess(h.kidKeys[i], h.kidKeys[j]) })

	st := map[key]*kidState{}
	for _, k := range gen {
		st[k] = &kidState{}
	}
	var pst struct {
		exists, visible bool
		version         int
		mems            []mem
		lastUpload      int
	}
	pst.lastUpload = -1

	clock := baseCommit
	jitMax := 0
	if pre {
		// The library decides per element by Committed, not by date: data without Committed values is
		// handled by timestamp and threshold whatever its date.
		clock = basePre
		h.dates = "2009"
		switch t.Draw(3) {
		case 1:
			clock = baseLate
			h.dates = "late"
		case 2:
			if h.regime == "pre" {
				clock = osm.CommitInfoStart.Add(-time.Duration(t.Draw(6))*(3*h.th+time.Second) - time.Duration(t.Draw(3))*time.Second)
				h.dates = "straddling"
			}
		}
		jitMax = int((h.th/2 - time.Second) / time.Second)
		if jitMax < 0 {
			jitMax = 0
		}
		if jitMax > 3000 {
			jitMax = 3000
		}
		if !sep {
			jitMax = 2
		}
	}
	upload := -1
	cluster := -1     // uploads committed in the same second form one cluster (separated regimes: one version per element per cluster)
	noJitter := false // the element timestamp is exactly the upload time (plus fixJit seconds)
	fixJit := 0
	preEra := pre
	var cs osm.ChangesetID
	// Changesets stay open for a while: an upload goes through a new changeset or through one of the
	// few still open, so changeset ids do not rise with time or with versions.
	var openCS []osm.ChangesetID
	nextCS := osm.ChangesetID(1000)
	drawCS := func(not osm.ChangesetID) osm.ChangesetID {
		if len(openCS) > 0 && t.Draw(3) == 2 {
			if c := openCS[t.Draw(len(openCS))]; c != not {
				return c
			}
		}
		c := nextCS
		nextCS += osm.ChangesetID(1 + t.Draw(3))
		if len(openCS) < 3 {
			openCS = append(openCS, c)
		} else {
			openCS[int(c)%3] = c
		}
		return c
	}
	note := func(f string, a ...interface{}) { h.log = append(h.log, fmt.Sprintf(f, a...)) }

	stamp := func(v *ver) {
		v.upload = upload
		v.cs = cs
		v.commit = clock
		if noJitter {
			v.ts = clock.Add(time.Duration(fixJit) * time.Second)
			v.hasCommit = !preEra
		} else if preEra {
			d := t.Draw(2*jitMax + 1)
			j := (d + 1) / 2
			if d%2 == 0 {
				j = -j
			}
			v.ts = clock.Add(time.Duration(j) * time.Second)
		} else {
			v.hasCommit = true
			v.ts = clock.Add(-time.Duration(t.Draw(3)) * time.Second)
		}
	}
	nextVersion := func(cur int) int {
		if cur == 0 {
			// the first version in this history: usually 1, sometimes the element is old already, with a
			// version number just below a power-of-two boundary or simply large (the model goes by log
			// order, nothing depends on the absolute numbers)
			switch t.Draw(8) {
			case 5:
				return 250 + t.Draw(7)
			case 6:
				return 65530 + t.Draw(7)
			case 7:
				return 1000 + t.Draw(4001)
			}
			return 1
		}
		if t.Chance(1, 8) {
			return cur + 2 + t.Draw(2)
		}
		return cur + 1
	}
	addKid := func(k key, visible bool) *ver {
		s := st[k]
		s.version = nextVersion(s.version)
		s.exists, s.visible = true, visible
		s.lastUpload = cluster
		s.nv++
		v := &ver{k: k, version: s.version, visible: visible}
		stamp(v)
		switch k.typ {
		case tNode:
			if visible {
				v.lat = float64(k.id) + float64(s.version)/1000
				v.lon = -float64(k.id) - float64(s.version)/1000
			}
		case tWay:
			if visible {
				v.refs = []int64{100*k.id + 1, 100*k.id + 2, 100*k.id + 3}
				if prev := h.kids[k]; len(prev) > 0 && len(prev[len(prev)-1].refs) > 0 && t.Draw(3) == 1 {
					pr := prev[len(prev)-1].refs
					v.refs = nil
					for i := len(pr) - 1; i >= 0; i-- {
						v.refs = append(v.refs, pr[i])
					}
				} else if len(prev) > 0 && len(prev[len(prev)-1].refs) > 0 {
					v.refs = append([]int64(nil), prev[len(prev)-1].refs...)
				}
			}
		}
		h.kids[k] = append(h.kids[k], v)
		return v
	}
	visibleKids := func() []key {
		var out []key
		for _, k := range gen {
			if st[k].exists && st[k].visible {
				out = append(out, k)
			}
		}
		return out
	}
	referenced := func(k key) bool {
		if !pst.exists || !pst.visible {
			return false
		}
		for _, m := range pst.mems {
			if m.k == k {
				return true
			}
		}
		return false
	}
	roles := []string{"", "outer", "inner"}
	maxRefs := 4
	if o.hard {
		maxRefs = 7
	}
	parentEdit := func(first *key) bool {
		vk := visibleKids()
		if len(vk) == 0 || (sep && pst.lastUpload == cluster) {
			return false
		}
		n := 1 + t.Draw(maxRefs)
		var ms []mem
		for i := 0; i < n; i++ {
			m := mem{k: vk[t.Draw(len(vk))]}
			if i == 0 && first != nil {
				m.k = *first
			}
			if parentRel {
				m.role = roles[t.Draw(3)]
			}
			ms = append(ms, m)
		}
		pst.version = nextVersion(pst.version)
		pst.exists, pst.visible, pst.mems, pst.lastUpload = true, true, ms, cluster
		v := &ver{k: h.parent, version: pst.version, visible: true, mems: ms}
		stamp(v)
		h.parents = append(h.parents, v)
		var names []string
		for _, m := range ms {
			names = append(names, m.k.String())
		}
		note("  %s v%d refs [%s]", h.parent, v.version, strings.Join(names, " "))
		return true
	}
	childEdit := func() {
		vk := visibleKids()
		if len(vk) == 0 {
			return
		}
		k := vk[t.Draw(len(vk))]
		if sep && st[k].lastUpload == cluster {
			return
		}
		v := addKid(k, true)
		note("  %s", v)
	}

	nUploads := 1 + t.Draw(o.maxUploads)
	maxEdits := 3
	if o.hard {
		maxEdits = 5
	}
	ops := opsPlain
	if o.hard {
		ops = opsHard
	}
	parentAt := t.Draw(3) // the upload in which the parent is created
	if parentAt >= nUploads {
		parentAt = nUploads - 1
	}
	switchAt := -1 // mixed regime: the first upload with commit times
	if h.regime == "mixed" {
		switchAt = 1 + t.Draw(nUploads)
	}
	var tieKid *key // the previous upload was a same-second upload that edited this child
	var fwdJit [3]int
	fwd := false
	for u := 0; u < nUploads; u++ {
		upload = u
		cs = drawCS(cs) // never the previous upload's: a same-second pair needs two changesets
		if u == switchAt {
			preEra = false
		}
		follow := tieKid != nil
		if !follow {
			cluster++
		}
		if u > 0 && !follow {
			if sep {
				gap := 3*h.th + time.Second + time.Duration(t.Pick(0, 1, 7, 3600, 86400*30))*time.Second
				clock = clock.Add(gap)
			} else {
				var gap time.Duration
				switch t.Draw(8) {
				case 0:
					gap = time.Hour
				case 1:
					gap = 0 // same second as the previous upload
				case 2:
					gap = time.Second
				case 3:
					gap = time.Duration(2+t.Draw(58)) * time.Second
				case 4:
					gap = h.th
				case 5:
					gap = h.th + time.Duration(t.Draw(3)-1)*time.Second
					if gap < 0 {
						gap = 0
					}
				case 6:
					gap = time.Duration(2+t.Draw(120)) * time.Minute
				case 7:
					gap = time.Duration(1+t.Draw(400)) * 24 * time.Hour
				}
				clock = clock.Add(gap)
			}
		}
		if u == switchAt && clock.Before(baseCommit) {
			clock = baseCommit
		}
		h.uploads = append(h.uploads, clock)
		note("upload %d at +%v (changeset %d)", u, clock.Sub(h.uploads[0]), cs)
		if u == 0 {
			// the first upload creates the children that are not created later
			for i, k := range gen {
				if i == 0 || !t.Chance(1, 4) {
					v := addKid(k, true)
					note("  %s", v)
				}
			}
		}
		if sep && u > 0 && !follow && u+1 < nUploads && u+1 != switchAt && t.Chance(1, 4) {
			// same-second uploads: this upload only edits one child; the next upload, committed in the
			// same second under another changeset, starts with a parent version referring to that child.
			// Logged before the parent version and carrying its very timestamp, the child version is
			// current for it.
			if vk := visibleKids(); len(vk) > 0 {
				k := vk[t.Draw(len(vk))]
				fwdJit = [3]int{}
				fwd = false
				if preEra && jitMax >= 1 && t.Chance(1, 3) {
					// foreign-then-own: within the threshold window after the parent version's timestamp first
					// this (foreign changeset) version of the child, then one written by the parent's own
					// changeset. Same-changeset forward grouping makes the own version the parent's child.
					fwd = true
					fwdJit[0] = -jitMax + t.Draw(2*jitMax-1)               // parent version
					fwdJit[1] = fwdJit[0] + 1 + t.Draw(jitMax-1-fwdJit[0]) // foreign child version
					fwdJit[2] = fwdJit[1] + 1 + t.Draw(jitMax-fwdJit[1])   // own child version
				}
				noJitter, fixJit = true, fwdJit[1]
				v := addKid(k, true)
				noJitter, fixJit = false, 0
				if fwd {
					note("  %s at %+ds (foreign changeset; the next upload, same second, writes the parent version at %+ds and this child at %+ds)", v, fwdJit[1], fwdJit[0], fwdJit[2])
				} else {
					note("  %s (same second as the next upload)", v)
				}
				tieKid = &k
				h.ties++
				continue
			}
		}
		if follow {
			noJitter, fixJit = true, fwdJit[0]
			ok := parentEdit(tieKid)
			if fwd && ok {
				fixJit = fwdJit[2]
				v := addKid(*tieKid, true)
				note("  %s (own changeset, after the parent version's timestamp)", v)
				h.fwd = append(h.fwd, fwdCase{parent: len(h.parents) - 1, kid: *tieKid})
			}
			noJitter, fixJit = false, 0
			tieKid, fwd = nil, false
		}
		if u == parentAt {
			parentEdit(nil)
		}
		if u == 0 {
			continue
		}
		nEdits := 1 + t.Draw(maxEdits)
		for e := 0; e < nEdits; e++ {
			switch ops[t.Draw(len(ops))] {
			case opChildEdit:
				childEdit()
			case opParentEdit:
				if u < parentAt || !parentEdit(nil) {
					childEdit()
				}
			case opBurst:
				vk := visibleKids()
				if len(vk) == 0 {
					break
				}
				if sep {
					childEdit()
					break
				}
				k := vk[t.Draw(len(vk))]
				n := 2 + t.Draw(3)
				uploadCS := cs
				for i := 0; i < n; i++ {
					if i > 0 && t.Chance(1, 3) {
						// another upload in the same second, through another open changeset
						cs = drawCS(0)
					}
					v := addKid(k, true)
					if v.cs != uploadCS {
						note("  %s (changeset %d)", v, v.cs)
					} else {
						note("  %s", v)
					}
				}
				cs = uploadCS
			case opCreate:
				done := false
				for _, k := range gen {
					if !st[k].exists {
						v := addKid(k, true)
						note("  %s (created)", v)
						done = true
						break
					}
				}
				if !done {
					childEdit()
				}
			case opDelete:
				vk := visibleKids()
				if len(vk) == 0 {
					break
				}
				k := vk[t.Draw(len(vk))]
				if sep && st[k].lastUpload == cluster {
					break
				}
				if referenced(k) {
					if !(o.allowInconsistent && t.Chance(1, 3)) {
						childEdit()
						break
					}
					h.inconsistent = true
				}
				v := addKid(k, false)
				note("  %s", v)
			case opUndelete:
				done := false
				for _, k := range gen {
					if st[k].exists && !st[k].visible && !(sep && st[k].lastUpload == cluster) {
						v := addKid(k, true)
						note("  %s (undeleted)", v)
						done = true
						break
					}
				}
				if !done {
					childEdit()
				}
			case opParentDelete:
				if !pst.exists || !pst.visible || (sep && pst.lastUpload == cluster) {
					childEdit()
					break
				}
				pst.version = nextVersion(pst.version)
				pst.visible, pst.mems, pst.lastUpload = false, nil, cluster
				v := &ver{k: h.parent, version: pst.version, visible: false}
				stamp(v)
				h.parents = append(h.parents, v)
				note("  %s", v)
			}
		}
	}
	return h
}

// ---------------------------------------------------------------- model queries

// currentAt is the version of a child current at time t among the versions vs (ascending).
func currentAt(vs []*ver, t time.Time) *ver {
	var cur *ver
	for _, v := range vs {
		if v.commit.After(t) {
			break
		}
		cur = v
	}
	return cur
}

// stampOf is the time an update made from v must carry: the commit time in the commit-time
// regime, the element timestamp before it.
func stampOf(v *ver) time.Time {
	if v.hasCommit && !v.ts.Before(osm.CommitInfoStart) {
		return v.commit
	}
	return v.ts
}

// ---------------------------------------------------------------- materialisation as osm values

// oid maps a model id to the id used in one execution. Mirroring reverses the order of the
// ids of each type, so that the sorted ("flat") map order becomes the reverse order.
func (h *history) oid(k key, mirror bool) int64 {
	if !mirror || k == h.parent {
		return k.id
	}
	return h.nOfType[k.typ] + 1 - k.id
}

func (h *history) unmirror(typ int, id int64, mirror bool) key {
	if !mirror {
		return key{typ, id}
	}
	return key{typ, h.nOfType[typ] + 1 - id}
}

func typIndex(t osm.Type) int {
	switch t {
	case osm.TypeNode:
		return tNode
	case osm.TypeWay:
		return tWay
	}
	return tRel
}

func (h *history) keyOfFeature(f osm.FeatureID, mirror bool) key {
	return h.unmirror(typIndex(f.Type()), f.Ref(), mirror)
}

func committedPtr(v *ver) *time.Time {
	if !v.hasCommit {
		return nil
	}
	c := v.commit
	return &c
}

func (h *history) nodeOf(v *ver, mirror bool) *osm.Node {
	return &osm.Node{ID: osm.NodeID(h.oid(v.k, mirror)), Version: v.version, Visible: v.visible, ChangesetID: v.cs,
		Timestamp: v.ts, Committed: committedPtr(v), Lat: v.lat, Lon: v.lon}
}

func (h *history) wayOf(v *ver, mirror bool) *osm.Way {
	w := &osm.Way{ID: osm.WayID(h.oid(v.k, mirror)), Version: v.version, Visible: v.visible, ChangesetID: v.cs,
		Timestamp: v.ts, Committed: committedPtr(v)}
	if v.k == h.parent {
		for _, m := range v.mems {
			w.Nodes = append(w.Nodes, osm.WayNode{ID: osm.NodeID(h.oid(m.k, mirror))})
		}
	} else {
		for _, r := range v.refs {
			w.Nodes = append(w.Nodes, osm.WayNode{ID: osm.NodeID(r)})
		}
	}
	return w
}

func (h *history) relationOf(v *ver, mirror bool) *osm.Relation {
	r := &osm.Relation{ID: osm.RelationID(h.oid(v.k, mirror)), Version: v.version, Visible: v.visible, ChangesetID: v.cs,
		Timestamp: v.ts, Committed: committedPtr(v)}
	for _, m := range v.mems {
		r.Members = append(r.Members, osm.Member{Type: typeNames[m.k.typ], Ref: h.oid(m.k, mirror), Role: m.role})
	}
	return r
}

// parentWays returns fresh, unannotated copies of all versions of the parent way.
func (h *history) parentWays(mirror bool) osm.Ways {
	var out osm.Ways
	for _, v := range h.parents {
		out = append(out, h.wayOf(v, mirror))
	}
	return out
}

func (h *history) parentRelations(mirror bool) osm.Relations {
	var out osm.Relations
	for _, v := range h.parents {
		out = append(out, h.relationOf(v, mirror))
	}
	return out
}

// hash identifies the workload.
func (h *history) hash() uint64 {
	var sb strings.Builder
	fmt.Fprintf(&sb, "%s %v %v %s|", h.regime, h.th, h.thDefault, h.parent)
	for _, p := range h.parents {
		fmt.Fprintf(&sb, "P%d %v %d %d %d %v;", p.version, p.visible, p.ts.Unix(), p.commit.Unix(), p.cs, p.mems)
	}
	for _, k := range h.kidKeys {
		for _, v := range h.kids[k] {
			fmt.Fprintf(&sb, "%s %d %v %d %d %d %v;", k, v.version, v.visible, v.ts.Unix(), v.commit.Unix(), v.cs, v.refs)
		}
	}
	return kit.HashStr(11, sb.String())
}

// summary is the small description used as an evidence sample.
func (h *history) summary() map[string]interface{} {
	nv := 0
	for _, k := range h.kidKeys {
		nv += len(h.kids[k])
	}
	th := h.th.String()
	if h.thDefault {
		th += " (library default)"
	}
	return map[string]interface{}{
		"regime": h.regime, "dates_without_committed": h.dates, "threshold": th, "parent": h.parent.String(), "parent_versions": len(h.parents),
		"children": len(h.kidKeys), "child_versions": nv, "uploads": len(h.uploads), "referential_integrity_broken": h.inconsistent,
	}
}
