package annosim

import (
	"context"
	"fmt"
	"strings"
	"testing"

	"github.com/paulmach/osm"
	"github.com/paulmach/osm/annotate"
	"github.com/paulmach/osm/simrt"

	"h/kit"
	"h/simu"
)

// pslot is the library-visible state of one child position of an annotated parent version.
type pslot struct {
	typ         int
	id          int64
	version     int
	cs          osm.ChangesetID
	lat, lon    float64
	orientation int
}

// pver is one annotated parent version in a form common to ways and relations.
type pver struct {
	version int
	visible bool
	slots   []pslot
	updates osm.Updates
}

// execRes is the outcome of one annotation execution.
type execRes struct {
	err      error
	panicMsg string
	parents  []pver
	ways     osm.Ways
	rels     osm.Relations
	ds       *fds
}

func waysToPvers(ws osm.Ways) []pver {
	out := make([]pver, len(ws))
	for i, w := range ws {
		p := pver{version: w.Version, visible: w.Visible, updates: w.Updates}
		for _, n := range w.Nodes {
			p.slots = append(p.slots, pslot{tNode, int64(n.ID), n.Version, n.ChangesetID, n.Lat, n.Lon, 0})
		}
		out[i] = p
	}
	return out
}

func relsToPvers(rs osm.Relations) []pver {
	out := make([]pver, len(rs))
	for i, r := range rs {
		p := pver{version: r.Version, visible: r.Visible, updates: r.Updates}
		for _, m := range r.Members {
			p.slots = append(p.slots, pslot{typIndex(m.Type), m.Ref, m.Version, m.ChangesetID, m.Lat, m.Lon, int(m.Orientation)})
		}
		out[i] = p
	}
	return out
}

func fmtUpdate(u osm.Update) string {
	return fmt.Sprintf("%d/v%d/%d/%d/%g/%g/%v", u.Index, u.Version, u.Timestamp.UnixNano(), u.ChangesetID, u.Lat, u.Lon, u.Reverse)
}

// canonSlots serialises the annotated children of a parent version (child ids are structural
// and are checked separately, so that a mirrored execution is comparable).
func canonSlots(p *pver) string {
	var sb strings.Builder
	for _, s := range p.slots {
		fmt.Fprintf(&sb, "v%d/%d/%g/%g/%d ", s.version, s.cs, s.lat, s.lon, s.orientation)
	}
	return sb.String()
}

func canonUpdates(us osm.Updates) string {
	var sb strings.Builder
	for _, u := range us {
		sb.WriteString(fmtUpdate(u))
		sb.WriteByte(' ')
	}
	return sb.String()
}

func canon(ps []pver) string {
	var sb strings.Builder
	for i := range ps {
		fmt.Fprintf(&sb, "P v%d vis=%v [%s] U[%s]\n", ps[i].version, ps[i].visible, canonSlots(&ps[i]), canonUpdates(ps[i].updates))
	}
	return sb.String()
}

// annOpts are the options of one execution besides the threshold.
type annOpts struct {
	ignoreMissing      bool
	ignoreInconsistent bool
	filter             func(osm.FeatureID) bool
	preWays            osm.Ways      // annotate these (already annotated) parents instead of fresh ones
	preRels            osm.Relations // idem
}

// run annotates fresh copies of the parents of h against a fresh datasource, on a goroutine
// registered with the simulator, so that the iteration order of the child-location map is
// the seeded permutation of sched (sorted order when sched.Flat).
func (h *history) run(t *testing.T, p *plan, sched kit.SchedCfg, mirror bool, ao annOpts) (res execRes) {
	ds := newDS(h, p, mirror)
	res.ds = ds
	var opts []annotate.Option
	if !h.thDefault {
		opts = append(opts, annotate.Threshold(h.th))
	}
	if ao.ignoreMissing {
		opts = append(opts, annotate.IgnoreMissingChildren(true))
	}
	if ao.ignoreInconsistent {
		opts = append(opts, annotate.IgnoreInconsistency(true))
	}
	if ao.filter != nil {
		opts = append(opts, annotate.ChildFilter(ao.filter))
	}
	sr := simu.Run(t, simu.Cfg{Sched: sched, Name: "annotator"}, func(sim *simrt.Sim, root context.Context) {
		if h.parent.typ == tWay {
			ws := ao.preWays
			if ws == nil {
				ws = h.parentWays(mirror)
			}
			res.ways = ws
			if p.children {
				res.err = annotate.Ways(root, ws, fdsChildren{ds}, opts...)
			} else {
				res.err = annotate.Ways(root, ws, ds, opts...)
			}
		} else {
			rs := ao.preRels
			if rs == nil {
				rs = h.parentRelations(mirror)
			}
			res.rels = rs
			if p.children {
				res.err = annotate.Relations(root, rs, fdsChildren{ds}, opts...)
			} else {
				res.err = annotate.Relations(root, rs, ds, opts...)
			}
		}
	})
	switch {
	case sr.CallerPanic != "":
		res.panicMsg = sr.CallerPanic
	case sr.Hang != "":
		res.panicMsg = "hang: " + sr.Hang
	}
	if h.parent.typ == tWay {
		res.parents = waysToPvers(res.ways)
	} else {
		res.parents = relsToPvers(res.rels)
	}
	return
}

// refsIntact checks that annotation left the child references themselves alone.
func (h *history) refsIntact(ps []pver, mirror bool) string {
	if len(ps) != len(h.parents) {
		return fmt.Sprintf("%d parent versions in, %d out", len(h.parents), len(ps))
	}
	for i, pv := range h.parents {
		if ps[i].version != pv.version || ps[i].visible != pv.visible {
			return fmt.Sprintf("parent version %d changed identity: v%d visible=%v", pv.version, ps[i].version, ps[i].visible)
		}
		if len(ps[i].slots) != len(pv.mems) {
			return fmt.Sprintf("parent v%d has %d children, had %d", pv.version, len(ps[i].slots), len(pv.mems))
		}
		for j, m := range pv.mems {
			s := ps[i].slots[j]
			if s.typ != m.k.typ || s.id != h.oid(m.k, mirror) {
				return fmt.Sprintf("parent v%d child %d now refers to %c%d, was %s", pv.version, j, "nwr"[s.typ], s.id, m.k)
			}
		}
	}
	return ""
}

// errKind names an annotation error for comparison across executions.
func errKind(err error) string {
	switch err.(type) {
	case nil:
		return ""
	case *annotate.NoHistoryError:
		return "NoHistoryError"
	case *annotate.NoVisibleChildError:
		return "NoVisibleChildError"
	}
	if err == errInjected {
		return "datasource-error"
	}
	if strings.Contains(err.Error(), "child deleted between parent versions") {
		return "child-deleted-between-parent-versions"
	}
	return "other: " + err.Error()
}

// orderViolation reports the first adjacent pair of an update list that is not ordered by
// index, then timestamp, then child version; kind is "" if the list is ordered.
func orderViolation(us osm.Updates) (kind string, at int) {
	for k := 1; k < len(us); k++ {
		a, b := us[k-1], us[k]
		switch {
		case a.Index > b.Index:
			return "index-out-of-order", k
		case a.Index < b.Index:
		case a.Timestamp.After(b.Timestamp):
			return "timestamp-out-of-order", k
		case a.Timestamp.Equal(b.Timestamp) && a.Version > b.Version:
			return "same-timestamp-versions-out-of-order", k
		}
	}
	return "", 0
}
