package annosim

import (
	"fmt"
	"sort"
	"testing"
	"time"

	"github.com/paulmach/osm"
	"github.com/paulmach/osm/annotate"

	"h/kit"
)

// C11 — annotation reconstructs, for any time, the child versions that were current.
//
// Same generator as C12 plus the reference model: the simulated database answers "which
// version of child c was current at time t" by replaying its own log. The oracle is exact in
// the commit-time regime; in the pre-commit regime the generator only produces histories
// on which the library's nearest-version heuristic has a unique right answer (uploads more
// than 3*threshold apart, one version of an element per upload, skew < threshold/2).

const c11Batch = 16

// far is the commit time standing in for "no next parent version".
var far = time.Date(2100, 1, 1, 0, 0, 0, 0, time.UTC)

// childVerdict is what the model says about one child's served history.
type childVerdict struct {
	missing  bool
	sv       []*ver
	definite []string // error kinds the library must raise for this child (unless ignored)
	maybe    bool     // the history is inconsistent in a way whose outcome the statement does not fix
}

func (c *childVerdict) clean() bool { return !c.missing && len(c.definite) == 0 && !c.maybe }

const (
	kNoHistory = "NoHistoryError"
	kNoVisible = "NoVisibleChildError"
	kDeleted   = "child-deleted-between-parent-versions"
	kGeneric   = "datasource-error"
)

func hasStr(a []string, s string) bool {
	for _, x := range a {
		if x == s {
			return true
		}
	}
	return false
}

// nextCommit is the commit time of the parent version after i.
func (h *history) nextCommit(i int) time.Time {
	if i+1 < len(h.parents) {
		return h.parents[i+1].commit
	}
	return far
}

func (h *history) nextUpload(i int) int {
	if i+1 < len(h.parents) {
		return h.parents[i+1].upload
	}
	return 1 << 30
}

// inMust reports whether a child version written after parent version i must be in its
// update list; inAllowed whether it may be.
func (h *history) inMust(i int, v *ver) bool {
	p := h.parents[i]
	if h.regime != "commit" {
		return v.upload > p.upload && v.upload < h.nextUpload(i)
	}
	return v.commit.After(p.commit) && v.commit.Before(h.nextCommit(i).Add(-h.th))
}

func (h *history) inAllowed(i int, v *ver) bool {
	p := h.parents[i]
	if h.regime != "commit" {
		return v.upload > p.upload && v.upload <= h.nextUpload(i)
	}
	return v.commit.After(p.commit) && !v.commit.After(h.nextCommit(i))
}

// judge evaluates the served history of every child against the parents.
func (h *history) judge(p *plan) map[key]*childVerdict {
	out := map[key]*childVerdict{}
	for _, k := range h.kidKeys {
		cv := &childVerdict{}
		out[k] = cv
		if p.missing[k] {
			cv.missing = true
			continue
		}
		cv.sv = p.surviving(h, k)
		add := func(kind string) {
			if !hasStr(cv.definite, kind) {
				cv.definite = append(cv.definite, kind)
			}
		}
		for i, pv := range h.parents {
			if !pv.visible {
				continue
			}
			refd := false
			for _, m := range pv.mems {
				if m.k == k {
					refd = true
				}
			}
			if !refd {
				continue
			}
			sameUploadDelete := false
			if h.regime != "commit" {
				// a deleted version in the parent's own upload: the heuristic may still see the previous one
				for _, v := range cv.sv {
					if v.upload == pv.upload && !v.visible {
						sameUploadDelete = true
						cv.maybe = true
					}
				}
			}
			cur := currentAt(cv.sv, pv.commit)
			if (cur == nil || !cur.visible) && !sameUploadDelete {
				add(kNoVisible)
			}
			for _, v := range cv.sv {
				if v.visible || !h.inAllowed(i, v) {
					continue
				}
				switch {
				case h.inMust(i, v):
					add(kDeleted)
				case h.regime != "commit":
					// deleted in the next parent's upload: the consistent pattern when that version drops the child
				default:
					// deleted within the threshold before (or at) the next parent version
					nc := h.nextCommit(i)
					if after := currentAt(cv.sv, nc); after != nil && after.visible {
						add(kDeleted) // deleted and restored between the two parent versions
					} else if v.commit.Before(nc) {
						cv.maybe = true // deleted shortly before the next parent version while still referenced
					}
				}
			}
		}
	}
	return out
}

func runC11(t *testing.T, r *kit.Run) {
	pin := pinOf(r)
	var wl uint64
	sampled := false
	for hi := 0; hi < c11Batch; hi++ {
		family := r.Tape.Draw(4) // 0,1 fault free; 2 datasource faults / inconsistent database; 3 child filter
		faulty := family == 2
		h := genHistory(r.Tape, genOpts{hard: r.Tape.Chance(1, 3), allowInconsistent: faulty, pre: true, separated: true, maxUploads: 12, maxKids: 5})
		p := genPlan(r.Tape, h, faulty)
		var ao annOpts
		if faulty {
			ao.ignoreMissing = r.Tape.Chance(1, 3)
			ao.ignoreInconsistent = r.Tape.Chance(1, 3)
		}
		filterMode := 0
		var selected map[key]bool
		if family == 3 {
			filterMode = 1 + r.Tape.Draw(2) // 1: re-annotation of annotated parents, 2: fresh parents
			selected = map[key]bool{}
			for _, k := range h.kidKeys {
				selected[k] = r.Tape.Bool()
			}
			p.failAt = 0
		}
		qseed := uint64(r.Tape.Draw(1 << 30))
		wl = kit.Mix(wl ^ h.hash())
		if pin >= 0 && hi != pin {
			continue
		}
		nt := c11History(t, r, hi, h, p, ao, filterMode, selected, qseed)
		if (nt && !sampled) || pin >= 0 {
			sampled = true
			sc := h.summary()
			sc["faults"] = p.describe()
			if ao.ignoreMissing {
				sc["ignore_missing_children"] = true
			}
			if ao.ignoreInconsistent {
				sc["ignore_inconsistency"] = true
			}
			if filterMode > 0 {
				var sel []string
				for _, k := range h.kidKeys {
					if selected[k] {
						sel = append(sel, k.String())
					}
				}
				sc["child_filter"] = map[string]interface{}{"selects": sel, "parents_already_annotated": filterMode == 1}
			}
			if pin >= 0 || r.Replay {
				sc["log"] = h.log
			}
			r.Out.Scenario = sc
		}
	}
	r.Out.Workload = wl
}

// applyAt returns the children of parent version i of an annotated result after
// ApplyUpdatesUpTo(t) on a deep copy.
func applyAt(res *execRes, i int, t time.Time) ([]pslot, error) {
	if res.ways != nil {
		c := *res.ways[i]
		c.Nodes = append(osm.WayNodes(nil), res.ways[i].Nodes...)
		c.Updates = append(osm.Updates(nil), res.ways[i].Updates...)
		if err := c.ApplyUpdatesUpTo(t); err != nil {
			return nil, err
		}
		return waysToPvers(osm.Ways{&c})[0].slots, nil
	}
	c := *res.rels[i]
	c.Members = append(osm.Members(nil), res.rels[i].Members...)
	c.Updates = append(osm.Updates(nil), res.rels[i].Updates...)
	if err := c.ApplyUpdatesUpTo(t); err != nil {
		return nil, err
	}
	return relsToPvers(osm.Relations{&c})[0].slots, nil
}

func slotMatches(s pslot, v *ver) string {
	switch {
	case s.version != v.version:
		return "wrong-version"
	case s.cs != v.cs:
		return "wrong-changeset"
	case s.lat != v.lat || s.lon != v.lon:
		return "wrong-location"
	}
	return ""
}

func c11History(t *testing.T, r *kit.Run, hi int, h *history, p *plan, ao annOpts, filterMode int, selected map[key]bool, qseed uint64) bool {
	o := r.Out
	pinStr := fmt.Sprintf("[[h=%d]] ", hi)
	desc := fmt.Sprintf("%s %s, %s regime, threshold %v, %d parent versions, %d children", typeNames[h.parent.typ], h.parent, h.regime, h.th, len(h.parents), len(h.kidKeys))
	reported := map[string]bool{}
	violate := func(class, f string, a ...interface{}) {
		if reported[class] {
			return
		}
		reported[class] = true
		o.Violate(class, pinStr+desc+": "+f, a...)
	}

	verdicts := h.judge(p)
	// expected error kinds after the ignore options
	var expect []string
	maybeErr := false
	errIDs := map[string][]key{}
	for _, k := range h.kidKeys {
		cv := verdicts[k]
		referenced := false
		for _, pv := range h.parents {
			if !pv.visible {
				continue
			}
			for _, m := range pv.mems {
				if m.k == k {
					referenced = true
				}
			}
		}
		if !referenced {
			continue
		}
		if cv.missing {
			if !ao.ignoreMissing {
				expect = append(expect, kNoHistory)
				errIDs[kNoHistory] = append(errIDs[kNoHistory], k)
			}
			continue
		}
		if !ao.ignoreInconsistent {
			for _, d := range cv.definite {
				expect = append(expect, d)
				errIDs[d] = append(errIDs[d], k)
			}
			if cv.maybe {
				maybeErr = true
				errIDs[kNoVisible] = append(errIDs[kNoVisible], k)
				errIDs[kDeleted] = append(errIDs[kDeleted], k)
			}
		}
	}

	orders := []kit.SchedCfg{{Flat: true}}
	if !r.Sched.Flat {
		orders = append(orders, kit.SchedCfg{Seed: kit.Mix(r.Sched.Seed + uint64(hi)*64 + 1)}, kit.SchedCfg{Seed: kit.Mix(r.Sched.Seed + uint64(hi)*64 + 2)})
	}

	// the filter scenario re-annotates parents that a first, complete annotation produced
	var filter func(osm.FeatureID) bool
	if filterMode > 0 {
		filter = func(f osm.FeatureID) bool { return selected[h.keyOfFeature(f, false)] }
		o.Probe("child-filter")
	}

	nontrivial := false
	rng := qseed
	for oi, sched := range orders {
		run := ao
		var before []pver
		if filterMode == 1 {
			first := h.run(t, p, kit.SchedCfg{Flat: true}, false, annOpts{})
			if first.err != nil || first.panicMsg != "" {
				// judged by the unfiltered families
				return false
			}
			before = first.parents
			run.preWays, run.preRels = first.ways, first.rels
			for i := range run.preWays {
				run.preWays[i].Updates = nil
			}
			for i := range run.preRels {
				run.preRels[i].Updates = nil
			}
			// deep copy of the slots: the second annotation writes into the same elements
			cp := make([]pver, len(before))
			for i := range before {
				cp[i] = before[i]
				cp[i].slots = append([]pslot(nil), before[i].slots...)
			}
			before = cp
		}
		run.filter = filter
		res := h.run(t, p, sched, false, run)
		o.Evals++
		sh := res.ds.orderHash()
		o.Scheds = append(o.Scheds, sh)
		if oi == 0 {
			for _, name := range sortedStrs(res.ds.fired) {
				o.Fault(name)
			}
			if h.inconsistent {
				o.Fault("child-deleted-while-referenced")
			}
		}
		if res.panicMsg != "" {
			violate("C11/crash", "panic: %s", res.panicMsg)
			continue
		}

		// ---- errors
		if res.err != nil {
			kind := errKind(res.err)
			o.Probe("annotation-returned-error")
			switch {
			case res.ds.genErr:
				if res.err != errInjected {
					violate("C11/datasource-error-not-returned-as-is", "the datasource failed on call %d with %q; annotation returned %T %v", p.failAt, errInjected, res.err, res.err)
				}
			case kind == kNoHistory || kind == kNoVisible:
				var id osm.FeatureID
				if e, ok := res.err.(*annotate.NoHistoryError); ok {
					id = e.ID
				} else {
					id = res.err.(*annotate.NoVisibleChildError).ID
				}
				k := h.keyOfFeature(id, false)
				okID := false
				for _, x := range errIDs[kind] {
					if x == k {
						okID = true
					}
				}
				if !hasStr(expect, kind) && !(maybeErr && kind == kNoVisible) {
					violate("C11/unexpected-error/"+kind, "no child calls for this error (expected kinds %v), got %v", expect, res.err)
				} else if !okID {
					violate("C11/error-names-wrong-child", "%v names %s; children for which %s applies: %v", res.err, k, kind, errIDs[kind])
				}
			case kind == kDeleted:
				if !hasStr(expect, kDeleted) && !maybeErr {
					violate("C11/unexpected-error/"+kDeleted, "no referenced child is deleted between parent versions (expected kinds %v), got %v", expect, res.err)
				}
			default:
				violate("C11/unexpected-error/other", "got %T %v (expected kinds %v)", res.err, res.err, expect)
			}
			continue
		}
		if len(expect) > 0 {
			sort.Strings(expect)
			cls := map[string]string{kNoHistory: "missing-history-not-reported", kNoVisible: "invisible-child-not-reported", kDeleted: "deleted-child-not-reported"}[expect[0]]
			violate("C11/"+cls, "annotation succeeded although %s applies to %v (ignore-missing=%v ignore-inconsistency=%v)", expect[0], errIDs[expect[0]], ao.ignoreMissing, ao.ignoreInconsistent)
			continue
		}
		if ao.ignoreMissing || ao.ignoreInconsistent {
			o.Probe("annotated-under-an-ignore-option")
		}
		if m := h.refsIntact(res.parents, false); m != "" {
			violate("C11/child-references-changed", "%s", m)
			continue
		}

		// ---- exact oracle on every clean child
		judged := func(k key) bool {
			return verdicts[k].clean() && (filterMode != 1 || selected[k])
		}
		for i, pv := range h.parents {
			got := &res.parents[i]
			if !pv.visible {
				if len(got.updates) != 0 {
					violate("C11/deleted-parent-annotated", "deleted parent v%d received %d updates", pv.version, len(got.updates))
				}
				continue
			}
			missorted, _ := orderViolation(got.updates)
			// (a) the child current when the parent version was committed
			for j, m := range pv.mems {
				if !judged(m.k) {
					if filterMode == 1 && !selected[m.k] && before != nil {
						if got.slots[j] != before[i].slots[j] {
							violate("C11/filter/unselected-child-changed", "parent v%d child %d (%s) was annotated %+v and is now %+v although the filter rejects it", pv.version, j, m.k, before[i].slots[j], got.slots[j])
						}
					}
					continue
				}
				cur := currentAt(verdicts[m.k].sv, pv.commit)
				if w := slotMatches(got.slots[j], cur); w != "" {
					violate("C11/current-child/"+w, "parent v%d (committed +%v) child %d = %s: annotated v%d changeset %d (%g,%g); current at that time was v%d changeset %d (%g,%g)",
						pv.version, pv.commit.Sub(h.uploads[0]), j, m.k, got.slots[j].version, got.slots[j].cs, got.slots[j].lat, got.slots[j].lon, cur.version, cur.cs, cur.lat, cur.lon)
				}
			}
			// (b) the update list, per index
			perIndex := map[int][]osm.Update{}
			for _, u := range got.updates {
				if u.Index < 0 || u.Index >= len(pv.mems) {
					violate("C11/update-list/index-out-of-range", "parent v%d has %d children, update index %d", pv.version, len(pv.mems), u.Index)
					continue
				}
				perIndex[u.Index] = append(perIndex[u.Index], u)
			}
			if len(got.updates) > 0 {
				nontrivial = true
			}
			for j, m := range pv.mems {
				if !judged(m.k) {
					continue
				}
				sv := verdicts[m.k].sv
				seen := map[int]bool{}
				for _, u := range perIndex[j] {
					var v *ver
					for _, x := range sv {
						if x.version == u.Version {
							v = x
						}
					}
					switch {
					case v == nil || !v.visible || !h.inAllowed(i, v):
						violate("C11/update-list/unexpected-version", "parent v%d child %d = %s: update for v%d, which is not a visible version written after this parent version and up to the next (list %s)", pv.version, j, m.k, u.Version, shortUpdates(got.updates))
					case seen[u.Version]:
						violate("C11/update-list/duplicate-version", "parent v%d child %d = %s: v%d listed twice", pv.version, j, m.k, u.Version)
					case !u.Timestamp.Equal(stampOf(v)):
						violate("C11/update-list/wrong-timestamp", "parent v%d child %d = %s v%d: update stamped %v, commit time %v", pv.version, j, m.k, u.Version, u.Timestamp, stampOf(v))
					case u.ChangesetID != v.cs || u.Lat != v.lat || u.Lon != v.lon:
						violate("C11/update-list/wrong-content", "parent v%d child %d = %s v%d: update %s, version has changeset %d (%g,%g)", pv.version, j, m.k, u.Version, fmtUpdate(u), v.cs, v.lat, v.lon)
					}
					seen[u.Version] = true
				}
				for _, v := range sv {
					if v.visible && h.inMust(i, v) && !seen[v.version] {
						violate("C11/update-list/missing-version", "parent v%d child %d = %s: v%d was committed after this parent version and more than the threshold before the next, but is not in the update list (%s)", pv.version, j, m.k, v.version, shortUpdates(got.updates))
					}
					if v.visible && h.inAllowed(i, v) && !h.inMust(i, v) {
						o.Probe("child-version-within-threshold-of-next-parent")
					}
					if v.commit.Equal(pv.commit) {
						o.Probe("child-version-at-the-parent's-instant")
					}
				}
			}
			// (c) time travel
			var times []time.Time
			if h.regime != "commit" {
				jit := h.th / 2
				for u := pv.upload; u < h.nextUpload(i) && u < len(h.uploads); u++ {
					times = append(times, h.uploads[u].Add(jit))
					if u+1 < len(h.uploads) {
						times = append(times, h.uploads[u].Add(h.uploads[u+1].Sub(h.uploads[u])/2))
					} else {
						times = append(times, h.uploads[u].Add(24*time.Hour))
					}
				}
			} else {
				end := h.nextCommit(i).Add(-h.th) // exclusive
				last := h.uploads[len(h.uploads)-1].Add(time.Hour)
				if i+1 >= len(h.parents) {
					end = last.Add(time.Second)
				}
				add := func(tq time.Time) {
					if !tq.Before(pv.commit) && tq.Before(end) {
						times = append(times, tq)
					}
				}
				add(pv.commit)
				add(end.Add(-time.Second))
				add(end.Add(-time.Nanosecond))
				for _, m := range pv.mems {
					if !judged(m.k) {
						continue
					}
					for _, v := range verdicts[m.k].sv {
						if v.commit.After(pv.commit) && v.commit.Before(end) {
							add(v.commit)
							add(v.commit.Add(-time.Second))
							add(v.commit.Add(time.Second))
						}
					}
				}
				if end.After(pv.commit) {
					span := uint64(end.Sub(pv.commit) / time.Second)
					for q := 0; q < 2 && span > 0; q++ {
						rng = kit.Mix(rng)
						add(pv.commit.Add(time.Duration(rng%span) * time.Second))
					}
				}
			}
			for _, tq := range times {
				slots, err := applyAt(&res, i, tq)
				o.ProbeN("time-travel-queries", 1)
				if err != nil {
					violate("C11/time-travel/apply-error", "parent v%d ApplyUpdatesUpTo(+%v): %v", pv.version, tq.Sub(h.uploads[0]), err)
					continue
				}
				for j, m := range pv.mems {
					if !judged(m.k) {
						continue
					}
					want := currentAt(verdicts[m.k].sv, tq)
					if want == nil {
						continue
					}
					if w := slotMatches(slots[j], want); w != "" {
						class := "C11/time-travel/" + w
						if missorted != "" {
							class = "C11/time-travel/update-list-missorted"
						}
						violate(class, "parent v%d (committed +%v) with updates applied up to +%v: child %d = %s is v%d changeset %d, the database had v%d changeset %d current at that time; update list: %s",
							pv.version, pv.commit.Sub(h.uploads[0]), tq.Sub(h.uploads[0]), j, m.k, slots[j].version, slots[j].cs, want.version, want.cs, shortUpdates(got.updates))
					}
				}
			}
		}
		if nontrivial {
			o.NonTrivial++
			o.Pairs = append(o.Pairs, kit.Mix(h.hash()^sh^uint64(filterMode)))
		}
	}

	// ---- probes about the history
	switch h.regime {
	case "pre":
		o.Probe("pre-commit-regime")
	case "mixed":
		o.Probe("mixed-regime")
	default:
		o.Probe("commit-time-regime")
	}
	if h.parent.typ == tRel {
		o.Probe("relation-parent")
	}
	if len(expect) > 0 {
		o.Probe("typed-error-expected")
	}
	if maybeErr {
		o.Probe("inconsistency-with-unspecified-outcome")
	}
	for i, pv := range h.parents {
		if !pv.visible {
			o.Probe("deleted-parent-version")
		}
		if i > 0 && pv.commit.Equal(h.parents[i-1].commit) {
			o.Probe("two-parent-versions-at-one-instant")
		}
		if i > 0 && pv.visible && h.parents[i-1].visible {
			prev := map[key]bool{}
			for _, m := range h.parents[i-1].mems {
				prev[m.k] = true
			}
			nowm := map[key]bool{}
			for _, m := range pv.mems {
				nowm[m.k] = true
				if !prev[m.k] {
					o.Probe("child-entered-the-parent")
				}
			}
			for _, m := range h.parents[i-1].mems {
				if !nowm[m.k] {
					o.Probe("child-left-the-parent")
				}
			}
		}
	}
	for _, k := range h.kidKeys {
		vs := h.kids[k]
		for i := 1; i < len(vs); i++ {
			if vs[i].visible && !vs[i-1].visible {
				o.Probe("child-undeleted")
			}
			if vs[i].version > vs[i-1].version+1 {
				o.Probe("version-gap")
			}
		}
	}
	return nontrivial
}
