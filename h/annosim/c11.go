package annosim

import (
	"fmt"
	"sort"
	"testing"
	"time"

	"github.com/paulmach/osm"
	"github.com/paulmach/osm/annotate"

	"h/kit"
)

// C11 — annotation reconstructs, for any time, the child versions that were current.
//
// Same generator as C12 plus the reference model: the simulated database answers "which
// version of child c was current at time t" by replaying its own log. The oracle is exact in
// the commit-time regime; in the pre-commit regime the generator only produces histories
// on which the library's nearest-version heuristic has a unique right answer (uploads more
// than 3*threshold apart, one version of an element per upload, skew < threshold/2).

const c11Batch = 16

// far is the commit time standing in for "no next parent version".
var far = time.Date(2100, 1, 1, 0, 0, 0, 0, time.UTC)

// childVerdict is what the model says about one child's served history.
type childVerdict struct {
	missing  bool
	sv       []*ver
	definite []string // error kinds the library must raise for this child (unless ignored)
	maybe    bool     // the history is inconsistent in a way whose outcome the statement does not fix
}

func (c *childVerdict) clean() bool { return !c.missing && len(c.definite) == 0 && !c.maybe }

const (
	kNoHistory = "NoHistoryError"
	kNoVisible = "NoVisibleChildError"
	kDeleted   = "child-deleted-between-parent-versions"
	kGeneric   = "datasource-error"
)

func hasStr(a []string, s string) bool {
	for _, x := range a {
		if x == s {
			return true
		}
	}
	return false
}

// nextCommit is the commit time of the parent version after i.
func (h *history) nextCommit(i int) time.Time {
	if i+1 < len(h.parents) {
		return h.parents[i+1].commit
	}
	return far
}

// after reports whether child version v was written after parent version i: committed at a
// later instant, or (separated pre-commit and mixed regimes, where versions of one second may
// belong to different changesets) logged later. A version logged before a parent version and
// committed in the same second is current for that parent version.
func (h *history) after(i int, v *ver) bool {
	p := h.parents[i]
	if h.regime != "commit" {
		return v.upload > p.upload
	}
	return v.commit.After(p.commit)
}

// inMust reports whether a child version must be in the update list of parent version i:
// written after it and committed strictly before the next parent version. This is exact in
// every regime: with commit times no grouping threshold applies ("exactly the later child
// versions up to the next parent version"); in the separated pre-commit regime a version of an
// earlier upload is more than two thresholds older than the next parent version.
// inAllowed additionally admits versions committed in the very instant of the next parent
// version (they are current for that version; the library lists those of a same-instant burst
// that are not the last one, which no query time can observe).
func (h *history) inMust(i int, v *ver) bool {
	return h.after(i, v) && v.commit.Before(h.nextCommit(i))
}

func (h *history) inAllowed(i int, v *ver) bool {
	return h.after(i, v) && !v.commit.After(h.nextCommit(i))
}

// judge evaluates the served history of every child against the parents.
func (h *history) judge(p *plan) map[key]*childVerdict {
	out := map[key]*childVerdict{}
	for _, k := range h.kidKeys {
		cv := &childVerdict{}
		out[k] = cv
		if p.missing[k] {
			cv.missing = true
			continue
		}
		cv.sv = p.surviving(h, k)
		add := func(kind string) {
			if !hasStr(cv.definite, kind) {
				cv.definite = append(cv.definite, kind)
			}
		}
		// foreign-then-own shape: if the fault plan dropped the own-changeset version, what remains is a
		// foreign-changeset version after the parent version's timestamp in its own second: no unique answer
		for _, f := range h.fwd {
			if f.kid != k {
				continue
			}
			own := false
			for _, v := range cv.sv {
				if v.upload == h.parents[f.parent].upload {
					own = true
				}
			}
			if !own {
				cv.maybe = true
			}
		}
		for i, pv := range h.parents {
			if !pv.visible {
				continue
			}
			refd := false
			for _, m := range pv.mems {
				if m.k == k {
					refd = true
				}
			}
			if !refd {
				continue
			}
			sameUploadDelete := false
			if h.regime != "commit" {
				// a deleted version in the parent's own upload: the heuristic may still see the previous one
				for _, v := range cv.sv {
					if v.commit.Equal(pv.commit) && !v.visible {
						sameUploadDelete = true
						cv.maybe = true
					}
				}
			}
			cur := currentAt(cv.sv, pv.commit)
			if (cur == nil || !cur.visible) && !sameUploadDelete {
				add(kNoVisible)
			}
			for _, v := range cv.sv {
				if v.visible || !h.inAllowed(i, v) {
					continue
				}
				switch {
				case h.inMust(i, v):
					add(kDeleted)
				case h.regime != "commit":
					// deleted in the next parent's upload: the consistent pattern when that version drops the child
				default:
					// deleted in the very instant of the next parent version: an error only if it was also
					// restored in that instant (deleted and restored between the two parent versions)
					if after := currentAt(cv.sv, h.nextCommit(i)); after != nil && after.visible {
						add(kDeleted)
					}
				}
			}
		}
	}
	return out
}

func runC11(t *testing.T, r *kit.Run) {
	pin := pinOf(r)
	var wl uint64
	sampled := false
	for hi := 0; hi < c11Batch; hi++ {
		family := r.Tape.Draw(4) // 0,1 fault free; 2 datasource faults / inconsistent database; 3 child filter
		faulty := family == 2
		h := genHistory(r.Tape, genOpts{hard: r.Tape.Chance(1, 3), allowInconsistent: faulty, pre: true, separated: true, maxUploads: 12, maxKids: 5})
		p := genPlan(r.Tape, h, faulty)
		var ao annOpts
		if faulty {
			ao.ignoreMissing = r.Tape.Chance(1, 3)
			ao.ignoreInconsistent = r.Tape.Chance(1, 3)
		}
		var fc *filterCfg
		if family == 3 {
			// incremental annotation: parent versions [0, prefix) are already annotated (with the model's
			// own answer), the later ones are new; the whole list is annotated again with a ChildFilter
			fc = &filterCfg{selected: map[key]bool{}}
			fc.prefix = r.Tape.Draw(1<<16) % (len(h.parents) + 1)
			if r.Tape.Chance(1, 2) && len(h.parents) > 1 {
				fc.prefix = 1 + r.Tape.Draw(len(h.parents)-1) // properly incremental: some old, some new
			}
			fc.kind = r.Tape.Draw(5)
			hs := uint64(r.Tape.Draw(1 << 16))
			for _, k := range h.kidKeys {
				coin := r.Tape.Bool()
				switch fc.kind {
				case 0:
					fc.selected[k] = true
				case 1:
					fc.selected[k] = false
				case 2:
					// only the children changed in the batch, i.e. after the last annotated parent version
					if fc.prefix == 0 {
						fc.selected[k] = true
					} else {
						last := h.parents[fc.prefix-1]
						for _, v := range h.kids[k] {
							if v.upload > last.upload {
								fc.selected[k] = true
							}
						}
					}
				case 3:
					fc.selected[k] = kit.Mix(hs+uint64(k.id)*31+uint64(k.typ))&1 == 1
				default:
					fc.selected[k] = coin
				}
			}
			p.failAt = 0
		}
		qseed := uint64(r.Tape.Draw(1 << 30))
		wl = kit.Mix(wl ^ h.hash())
		if pin >= 0 && hi != pin {
			continue
		}
		nt := c11History(t, r, hi, h, p, ao, fc, qseed)
		if (nt && !sampled) || pin >= 0 {
			sampled = true
			sc := h.summary()
			sc["faults"] = p.describe()
			if ao.ignoreMissing {
				sc["ignore_missing_children"] = true
			}
			if ao.ignoreInconsistent {
				sc["ignore_inconsistency"] = true
			}
			if fc != nil {
				var sel []string
				for _, k := range h.kidKeys {
					if fc.selected[k] {
						sel = append(sel, k.String())
					}
				}
				sc["child_filter"] = map[string]interface{}{"kind": filterKinds[fc.kind], "accepts": sel, "parent_versions_already_annotated": fc.prefix}
			}
			if pin >= 0 || r.Replay {
				sc["log"] = h.log
			}
			r.Out.Scenario = sc
		}
	}
	r.Out.Workload = wl
}

// filterCfg is the incremental-annotation scenario.
type filterCfg struct {
	prefix   int // parent versions [0, prefix) are already annotated
	kind     int
	selected map[key]bool // children the filter accepts
}

var filterKinds = [5]string{"accept-all", "reject-all", "children-changed-in-the-batch", "hash-of-id", "drawn-per-child"}

// prefixAnnotated returns fresh parents whose first j versions carry the model's annotation.
func (h *history) prefixAnnotated(j int, verdicts map[key]*childVerdict) (osm.Ways, osm.Relations) {
	var ws osm.Ways
	var rs osm.Relations
	if h.parent.typ == tWay {
		ws = h.parentWays(false)
	} else {
		rs = h.parentRelations(false)
	}
	for i := 0; i < j && i < len(h.parents); i++ {
		pv := h.parents[i]
		if !pv.visible {
			continue
		}
		for idx, m := range pv.mems {
			cur := currentAt(verdicts[m.k].sv, pv.commit)
			if ws != nil {
				n := &ws[i].Nodes[idx]
				n.Version, n.ChangesetID, n.Lat, n.Lon = cur.version, cur.cs, cur.lat, cur.lon
			} else {
				mm := &rs[i].Members[idx]
				mm.Version, mm.ChangesetID, mm.Lat, mm.Lon = cur.version, cur.cs, cur.lat, cur.lon
			}
		}
	}
	return ws, rs
}

// applyAt returns the children of parent version i of an annotated result after
// ApplyUpdatesUpTo(t) on a copy. With share the copy is the value copy a caller makes
// (c := *w, children copied because applying writes them): its update list aliases the
// annotated element's, so an apply that writes into that list shows in every later query.
func applyAt(res *execRes, i int, t time.Time, share bool) ([]pslot, error) {
	if res.ways != nil {
		c := *res.ways[i]
		c.Nodes = append(osm.WayNodes(nil), res.ways[i].Nodes...)
		if !share {
			c.Updates = append(osm.Updates(nil), res.ways[i].Updates...)
		}
		if err := c.ApplyUpdatesUpTo(t); err != nil {
			return nil, err
		}
		return waysToPvers(osm.Ways{&c})[0].slots, nil
	}
	c := *res.rels[i]
	c.Members = append(osm.Members(nil), res.rels[i].Members...)
	if !share {
		c.Updates = append(osm.Updates(nil), res.rels[i].Updates...)
	}
	if err := c.ApplyUpdatesUpTo(t); err != nil {
		return nil, err
	}
	return relsToPvers(osm.Relations{&c})[0].slots, nil
}

// prevVersion is the version number preceding v in vs, 0 if none.
func prevVersion(vs []*ver, v *ver) int {
	p := 0
	for _, x := range vs {
		if x == v {
			return p
		}
		p = x.version
	}
	return 0
}

func slotMatches(s pslot, v *ver) string {
	switch {
	case s.version != v.version:
		return "wrong-version"
	case s.cs != v.cs:
		return "wrong-changeset"
	case s.lat != v.lat || s.lon != v.lon:
		return "wrong-location"
	}
	return ""
}

func c11History(t *testing.T, r *kit.Run, hi int, h *history, p *plan, ao annOpts, fc *filterCfg, qseed uint64) bool {
	o := r.Out
	pinStr := fmt.Sprintf("[[h=%d]] ", hi)
	desc := fmt.Sprintf("%s %s, %s regime, threshold %v, %d parent versions, %d children", typeNames[h.parent.typ], h.parent, h.regime, h.th, len(h.parents), len(h.kidKeys))
	reported := map[string]bool{}
	violate := func(class, f string, a ...interface{}) {
		if reported[class] {
			return
		}
		reported[class] = true
		o.Violate(class, pinStr+desc+": "+f, a...)
	}

	verdicts := h.judge(p)
	// expected error kinds after the ignore options
	var expect []string
	maybeErr := false
	errIDs := map[string][]key{}
	for _, k := range h.kidKeys {
		cv := verdicts[k]
		referenced := false
		for _, pv := range h.parents {
			if !pv.visible {
				continue
			}
			for _, m := range pv.mems {
				if m.k == k {
					referenced = true
				}
			}
		}
		if !referenced {
			continue
		}
		if cv.missing {
			if !ao.ignoreMissing {
				expect = append(expect, kNoHistory)
				errIDs[kNoHistory] = append(errIDs[kNoHistory], k)
			}
			continue
		}
		if !ao.ignoreInconsistent {
			for _, d := range cv.definite {
				expect = append(expect, d)
				errIDs[d] = append(errIDs[d], k)
			}
			if cv.maybe {
				maybeErr = true
				errIDs[kNoVisible] = append(errIDs[kNoVisible], k)
				errIDs[kDeleted] = append(errIDs[kDeleted], k)
			}
		}
	}

	orders := []kit.SchedCfg{{Flat: true}}
	if !r.Sched.Flat {
		orders = append(orders, kit.SchedCfg{Seed: kit.Mix(r.Sched.Seed + uint64(hi)*64 + 1)}, kit.SchedCfg{Seed: kit.Mix(r.Sched.Seed + uint64(hi)*64 + 2)})
	}

	// the incremental scenario: every referenced child must be clean (the family has no faults)
	var filter func(osm.FeatureID) bool
	if fc != nil {
		for _, pv := range h.parents {
			for _, m := range pv.mems {
				if !verdicts[m.k].clean() {
					o.Probe("filter-scenario-skipped")
					return false
				}
			}
		}
		filter = func(f osm.FeatureID) bool { return fc.selected[h.keyOfFeature(f, false)] }
		o.Probe("child-filter")
		o.Probe("child-filter/" + filterKinds[fc.kind])
		if fc.prefix > 0 && fc.prefix < len(h.parents) {
			o.Probe("child-filter/incremental-old-and-new-parent-versions")
		}
	}
	// pass reports whether the reference at (parent version i, child k) is subject to annotation:
	// always when it was unannotated, otherwise only if the filter accepts the child
	pass := func(i int, k key) bool {
		return fc == nil || i >= fc.prefix || fc.selected[k]
	}

	var fcHash uint64
	if fc != nil {
		fcHash = kit.Mix(uint64(fc.prefix)*7 + uint64(fc.kind) + 1)
	}
	nontrivial := false
	rng := qseed
	for oi, sched := range orders {
		run := ao
		var before []pver
		if fc != nil {
			run.preWays, run.preRels = h.prefixAnnotated(fc.prefix, verdicts)
			if run.preWays != nil {
				before = waysToPvers(run.preWays)
			} else {
				before = relsToPvers(run.preRels)
			}
		}
		run.filter = filter
		res := h.run(t, p, sched, false, run)
		o.Evals++
		sh := res.ds.orderHash()
		o.Scheds = append(o.Scheds, sh)
		if oi == 0 {
			for _, name := range sortedStrs(res.ds.fired) {
				o.Fault(name)
			}
			if h.inconsistent {
				o.Fault("child-deleted-while-referenced")
			}
		}
		if res.panicMsg != "" {
			violate("C11/crash", "panic: %s", res.panicMsg)
			continue
		}

		// ---- errors
		if res.err != nil {
			kind := errKind(res.err)
			o.Probe("annotation-returned-error")
			switch {
			case res.ds.genErr:
				if res.err != errInjected {
					violate("C11/datasource-error-not-returned-as-is", "the datasource failed on call %d with %q; annotation returned %T %v", p.failAt, errInjected, res.err, res.err)
				}
			case kind == kNoHistory || kind == kNoVisible:
				var id osm.FeatureID
				if e, ok := res.err.(*annotate.NoHistoryError); ok {
					id = e.ID
				} else {
					id = res.err.(*annotate.NoVisibleChildError).ID
				}
				k := h.keyOfFeature(id, false)
				okID := false
				for _, x := range errIDs[kind] {
					if x == k {
						okID = true
					}
				}
				if !hasStr(expect, kind) && !(maybeErr && kind == kNoVisible) {
					violate("C11/unexpected-error/"+kind, "no child calls for this error (expected kinds %v), got %v", expect, res.err)
				} else if !okID {
					violate("C11/error-names-wrong-child", "%v names %s; children for which %s applies: %v", res.err, k, kind, errIDs[kind])
				}
			case kind == kDeleted:
				if !hasStr(expect, kDeleted) && !maybeErr {
					violate("C11/unexpected-error/"+kDeleted, "no referenced child is deleted between parent versions (expected kinds %v), got %v", expect, res.err)
				}
			default:
				violate("C11/unexpected-error/other", "got %T %v (expected kinds %v)", res.err, res.err, expect)
			}
			continue
		}
		if len(expect) > 0 {
			sort.Strings(expect)
			cls := map[string]string{kNoHistory: "missing-history-not-reported", kNoVisible: "invisible-child-not-reported", kDeleted: "deleted-child-not-reported"}[expect[0]]
			violate("C11/"+cls, "annotation succeeded although %s applies to %v (ignore-missing=%v ignore-inconsistency=%v)", expect[0], errIDs[expect[0]], ao.ignoreMissing, ao.ignoreInconsistent)
			continue
		}
		if ao.ignoreMissing || ao.ignoreInconsistent {
			o.Probe("annotated-under-an-ignore-option")
		}
		if m := h.refsIntact(res.parents, false); m != "" {
			violate("C11/child-references-changed", "%s", m)
			continue
		}

		// ---- exact oracle on every clean child
		judgedAt := func(i int, k key) bool {
			return verdicts[k].clean() && pass(i, k)
		}
		// foreign-then-own shape: only the annotated child is judged for that (parent version, child);
		// what becomes of the skipped foreign version in the update list is not fixed by the statement
		isFwd := func(i int, k key) bool {
			for _, f := range h.fwd {
				if f.parent == i && f.kid == k {
					return true
				}
			}
			return false
		}
		for i, pv := range h.parents {
			got := &res.parents[i]
			if !pv.visible {
				if len(got.updates) != 0 {
					violate("C11/deleted-parent-annotated", "deleted parent v%d received %d updates", pv.version, len(got.updates))
				}
				continue
			}
			missorted, _ := orderViolation(got.updates)
			// (a) the child current when the parent version was committed
			for j, m := range pv.mems {
				if !judgedAt(i, m.k) {
					if fc != nil && !pass(i, m.k) {
						o.Probe("child-filter/annotated-reference-of-rejected-child")
						if got.slots[j] != before[i].slots[j] {
							violate("C11/filter/rejected-child-changed", "parent v%d child %d (%s) was annotated %+v and is now %+v although the filter rejects it", pv.version, j, m.k, before[i].slots[j], got.slots[j])
						}
					}
					continue
				}
				cur := currentAt(verdicts[m.k].sv, pv.commit)
				if fc != nil && i >= fc.prefix && !fc.selected[m.k] {
					o.Probe("child-filter/unannotated-reference-of-rejected-child")
					if got.slots[j].version == 0 {
						violate("C11/filter/unannotated-child-left-unannotated", "parent v%d child %d (%s) was not annotated before this call and the filter (%s) rejects it: it must be annotated regardless (current v%d), but is still unannotated", pv.version, j, m.k, filterKinds[fc.kind], cur.version)
						continue
					}
				}
				if isFwd(i, m.k) {
					o.Probe("foreign-then-own-changeset-version-after-the-parent")
					if w := slotMatches(got.slots[j], cur); w != "" {
						violate("C11/forward-grouping/own-changeset-version-not-annotated", "parent v%d (changeset %d, timestamp %s) child %d = %s: within the threshold after the parent version first v%d of a foreign changeset, then v%d of the parent's own changeset %d were written; the own-changeset version is the parent's child, annotated is v%d changeset %d",
							pv.version, pv.cs, pv.ts.Format("15:04:05"), j, m.k, prevVersion(verdicts[m.k].sv, cur), cur.version, cur.cs, got.slots[j].version, got.slots[j].cs)
					}
					continue
				}
				if w := slotMatches(got.slots[j], cur); w != "" {
					violate("C11/current-child/"+w, "parent v%d (committed +%v) child %d = %s: annotated v%d changeset %d (%g,%g); current at that time was v%d changeset %d (%g,%g)",
						pv.version, pv.commit.Sub(h.uploads[0]), j, m.k, got.slots[j].version, got.slots[j].cs, got.slots[j].lat, got.slots[j].lon, cur.version, cur.cs, cur.lat, cur.lon)
				}
			}
			// (b) the update list, per index
			perIndex := map[int][]osm.Update{}
			for _, u := range got.updates {
				if u.Index < 0 || u.Index >= len(pv.mems) {
					violate("C11/update-list/index-out-of-range", "parent v%d has %d children, update index %d", pv.version, len(pv.mems), u.Index)
					continue
				}
				perIndex[u.Index] = append(perIndex[u.Index], u)
			}
			if len(got.updates) > 0 {
				nontrivial = true
			}
			for j, m := range pv.mems {
				if !judgedAt(i, m.k) || isFwd(i, m.k) {
					continue
				}
				sv := verdicts[m.k].sv
				seen := map[int]bool{}
				for _, u := range perIndex[j] {
					var v *ver
					for _, x := range sv {
						if x.version == u.Version {
							v = x
						}
					}
					switch {
					case v == nil || !v.visible || !h.inAllowed(i, v):
						violate("C11/update-list/unexpected-version", "parent v%d child %d = %s: update for v%d, which is not a visible version written after this parent version and up to the next (list %s)", pv.version, j, m.k, u.Version, shortUpdates(got.updates))
					case seen[u.Version]:
						violate("C11/update-list/duplicate-version", "parent v%d child %d = %s: v%d listed twice", pv.version, j, m.k, u.Version)
					case !u.Timestamp.Equal(stampOf(v)):
						violate("C11/update-list/wrong-timestamp", "parent v%d child %d = %s v%d: update stamped %v, commit time %v", pv.version, j, m.k, u.Version, u.Timestamp, stampOf(v))
					case u.ChangesetID != v.cs || u.Lat != v.lat || u.Lon != v.lon:
						violate("C11/update-list/wrong-content", "parent v%d child %d = %s v%d: update %s, version has changeset %d (%g,%g)", pv.version, j, m.k, u.Version, fmtUpdate(u), v.cs, v.lat, v.lon)
					}
					seen[u.Version] = true
				}
				for _, v := range sv {
					if v.visible && h.inMust(i, v) && !seen[v.version] {
						violate("C11/update-list/missing-version", "parent v%d child %d = %s: v%d was committed after this parent version and more than the threshold before the next, but is not in the update list (%s)", pv.version, j, m.k, v.version, shortUpdates(got.updates))
					}
					if v.visible && h.inAllowed(i, v) && !h.inMust(i, v) {
						o.Probe("child-version-at-the-next-parent's-instant")
					}
					if v.visible && h.inMust(i, v) && h.regime == "commit" && h.th > 0 && !v.commit.Before(h.nextCommit(i).Add(-h.th)) {
						o.Probe("child-version-within-threshold-of-next-parent")
					}
					if h.regime != "commit" && v.commit.Equal(pv.commit) && v.cs != pv.cs && v.upload < pv.upload {
						o.Probe("same-second-child-edit-under-another-changeset")
					}
					if v.commit.Equal(pv.commit) {
						o.Probe("child-version-at-the-parent's-instant")
					}
				}
			}
			// (c) time travel
			var times []time.Time
			if h.regime != "commit" {
				// instants at which every element of the uploads so far carries a timestamp <= t and every
				// later upload a timestamp > t: the end of the jitter window and the middle of the gap after
				// each distinct upload time from the parent version's up to (not including) the next one's
				jit := h.th / 2
				nc := h.nextCommit(i)
				for u := pv.upload; u < len(h.uploads); u++ {
					tu := h.uploads[u]
					if !tu.Before(nc) {
						break
					}
					if u > pv.upload && tu.Equal(h.uploads[u-1]) {
						continue
					}
					times = append(times, tu.Add(jit))
					nu := u + 1
					for nu < len(h.uploads) && h.uploads[nu].Equal(tu) {
						nu++
					}
					if nu < len(h.uploads) {
						times = append(times, tu.Add(h.uploads[nu].Sub(tu)/2))
					} else {
						times = append(times, tu.Add(24*time.Hour))
					}
				}
			} else {
				// with commit times the update list is exact, so every t before the next parent version is judged
				end := h.nextCommit(i) // exclusive
				last := h.uploads[len(h.uploads)-1].Add(time.Hour)
				if i+1 >= len(h.parents) {
					end = last.Add(time.Second)
				}
				add := func(tq time.Time) {
					if !tq.Before(pv.commit) && tq.Before(end) {
						times = append(times, tq)
					}
				}
				add(pv.commit)
				add(end.Add(-time.Second))
				add(end.Add(-time.Nanosecond))
				for _, m := range pv.mems {
					if !judgedAt(i, m.k) {
						continue
					}
					for _, v := range verdicts[m.k].sv {
						if v.commit.After(pv.commit) && v.commit.Before(end) {
							add(v.commit)
							add(v.commit.Add(-time.Second))
							add(v.commit.Add(time.Second))
						}
					}
				}
				if end.After(pv.commit) {
					span := uint64(end.Sub(pv.commit) / time.Second)
					for q := 0; q < 2 && span > 0; q++ {
						rng = kit.Mix(rng)
						add(pv.commit.Add(time.Duration(rng%span) * time.Second))
					}
				}
			}
			var updBefore osm.Updates
			if res.ways != nil {
				updBefore = append(osm.Updates(nil), res.ways[i].Updates...)
			} else {
				updBefore = append(osm.Updates(nil), res.rels[i].Updates...)
			}
			for qi, tq := range times {
				slots, err := applyAt(&res, i, tq, qi%2 == 0)
				if qi%2 == 0 {
					o.ProbeN("time-travel-queries-on-value-copy", 1)
					cur := res.updatesOf(i)
					same := len(cur) == len(updBefore)
					for k := 0; same && k < len(cur); k++ {
						same = cur[k] == updBefore[k]
					}
					if !same {
						violate("C11/time-travel/apply-on-a-copy-rewrote-the-update-list", "parent v%d: ApplyUpdatesUpTo(+%v) on a value copy changed the annotated element's own update list", pv.version, tq.Sub(h.uploads[0]))
					}
				}
				o.ProbeN("time-travel-queries", 1)
				if err != nil {
					violate("C11/time-travel/apply-error", "parent v%d ApplyUpdatesUpTo(+%v): %v", pv.version, tq.Sub(h.uploads[0]), err)
					continue
				}
				for j, m := range pv.mems {
					if !judgedAt(i, m.k) || isFwd(i, m.k) {
						continue
					}
					want := currentAt(verdicts[m.k].sv, tq)
					if want == nil {
						continue
					}
					if w := slotMatches(slots[j], want); w != "" {
						class := "C11/time-travel/" + w
						if missorted != "" {
							class = "C11/time-travel/update-list-missorted"
						}
						violate(class, "parent v%d (committed +%v) with updates applied up to +%v: child %d = %s is v%d changeset %d, the database had v%d changeset %d current at that time; update list: %s",
							pv.version, pv.commit.Sub(h.uploads[0]), tq.Sub(h.uploads[0]), j, m.k, slots[j].version, slots[j].cs, want.version, want.cs, shortUpdates(got.updates))
					}
				}
			}
		}
		if nontrivial {
			o.NonTrivial++
			o.Pairs = append(o.Pairs, kit.Mix(h.hash()^sh^fcHash))
		}
	}

	// ---- probes about the history
	switch h.regime {
	case "pre":
		o.Probe("pre-commit-regime")
	case "mixed":
		o.Probe("mixed-regime")
	default:
		o.Probe("commit-time-regime")
	}
	if h.dates == "late" || h.dates == "straddling" {
		o.Probe("no-committed-values-on-or-after-2012-09-12")
		for _, pv := range h.parents {
			for _, m := range pv.mems {
				if h.parent.typ == tRel && m.k.typ == tRel && !pv.hasCommit {
					for _, v := range h.kids[m.k] {
						if v.upload == pv.upload && v.ts.After(pv.ts) && !v.ts.Before(osm.CommitInfoStart) {
							o.Probe("late-sub-relation-version-after-its-parent-in-one-changeset")
						}
					}
				}
			}
		}
	}
	if h.parent.typ == tRel {
		o.Probe("relation-parent")
	}
	if len(expect) > 0 {
		o.Probe("typed-error-expected")
	}
	if maybeErr {
		o.Probe("inconsistency-with-unspecified-outcome")
	}
	for i, pv := range h.parents {
		if !pv.visible {
			o.Probe("deleted-parent-version")
		}
		if i > 0 && pv.commit.Equal(h.parents[i-1].commit) {
			o.Probe("two-parent-versions-at-one-instant")
		}
		if i > 0 && pv.visible && h.parents[i-1].visible {
			prev := map[key]bool{}
			for _, m := range h.parents[i-1].mems {
				prev[m.k] = true
			}
			nowm := map[key]bool{}
			for _, m := range pv.mems {
				nowm[m.k] = true
				if !prev[m.k] {
					o.Probe("child-entered-the-parent")
				}
			}
			for _, m := range h.parents[i-1].mems {
				if !nowm[m.k] {
					o.Probe("child-left-the-parent")
				}
			}
		}
	}
	for _, k := range h.kidKeys {
		vs := h.kids[k]
		for i := 1; i < len(vs); i++ {
			if vs[i].visible && !vs[i-1].visible {
				o.Probe("child-undeleted")
			}
			if vs[i].version > vs[i-1].version+1 {
				o.Probe("version-gap")
			}
		}
	}
	return nontrivial
}

// updatesOf is the update list of parent version i of an annotated result.
func (r *execRes) updatesOf(i int) osm.Updates {
	if r.ways != nil {
		return r.ways[i].Updates
	}
	return r.rels[i].Updates
}
