package annosim

import (
	"context"
	"errors"
	"fmt"
	"sort"
	"strings"

	"github.com/paulmach/osm"
	"github.com/paulmach/osm/annotate/shared"

	"h/kit"
)

// ---------------------------------------------------------------- fault plan

var errNotFound = errors.New("simulated datasource: no such element")
var errInjected = errors.New("simulated datasource: injected failure")

// plan is the fault plan the datasource applies to one history.
type plan struct {
	missing  map[key]bool   // history missing: NotFound
	dropped  map[key][]int  // versions removed from the served history
	shuffle  map[key]uint64 // history served in a seeded non-sorted order
	failAt   int            // generic error on the failAt-th call (1-based), 0 = never
	children bool           // serve pre-built children (the *AsChildren interfaces)
}

func (p *plan) describe() []string {
	var out []string
	for _, k := range sortedKeys(p.missing) {
		out = append(out, "history-missing "+k.String())
	}
	var dk []key
	for k := range p.dropped {
		dk = append(dk, k)
	}
	sort.Slice(dk, func(i, j int) bool { return keyLess(dk[i], dk[j]) })
	for _, k := range dk {
		out = append(out, fmt.Sprintf("versions-dropped %s %v", k, p.dropped[k]))
	}
	var sk []key
	for k := range p.shuffle {
		sk = append(sk, k)
	}
	sort.Slice(sk, func(i, j int) bool { return keyLess(sk[i], sk[j]) })
	for _, k := range sk {
		out = append(out, "history-unsorted "+k.String())
	}
	if p.failAt > 0 {
		out = append(out, fmt.Sprintf("generic-error-on-call %d", p.failAt))
	}
	if p.children {
		out = append(out, "serves-prebuilt-children")
	}
	return out
}

func sortedKeys(m map[key]bool) []key {
	var out []key
	for k, v := range m {
		if v {
			out = append(out, k)
		}
	}
	sort.Slice(out, func(i, j int) bool { return keyLess(out[i], out[j]) })
	return out
}

// genPlan draws a fault plan; the all-zero tape gives the empty plan.
func genPlan(t *kit.Tape, h *history, faulty bool) *plan {
	p := &plan{missing: map[key]bool{}, dropped: map[key][]int{}, shuffle: map[key]uint64{}}
	p.children = t.Chance(1, 5)
	for _, k := range h.kidKeys {
		// unsorted histories are harmless by contract (the library sorts plain histories)
		if !p.children && t.Chance(1, 3) {
			p.shuffle[k] = uint64(1 + t.Draw(1<<20))
		}
	}
	if !faulty {
		return p
	}
	for _, k := range h.kidKeys {
		switch t.Draw(8) {
		case 5:
			p.missing[k] = true
		case 6, 7:
			vs := h.kids[k]
			for _, v := range vs {
				if t.Chance(1, 3) {
					p.dropped[k] = append(p.dropped[k], v.version)
				}
			}
			if len(p.dropped[k]) == len(vs) {
				// everything dropped is a missing history
				delete(p.dropped, k)
				p.missing[k] = true
			}
			if len(p.dropped[k]) == 0 {
				delete(p.dropped, k)
			}
		}
	}
	if t.Chance(1, 6) {
		p.failAt = 1 + t.Draw(len(h.kidKeys)+1)
	}
	return p
}

// surviving is the history of k that the datasource serves, ascending; nil if missing.
func (p *plan) surviving(h *history, k key) []*ver {
	if p.missing[k] {
		return nil
	}
	drop := p.dropped[k]
	var out []*ver
	for _, v := range h.kids[k] {
		d := false
		for _, x := range drop {
			if x == v.version {
				d = true
			}
		}
		if !d {
			out = append(out, v)
		}
	}
	return out
}

// ---------------------------------------------------------------- datasource

// fds serves the histories of one history through the plan. One instance per execution.
type fds struct {
	h      *history
	p      *plan
	mirror bool
	calls  int
	order  []key
	fired  map[string]int
	genErr bool // the injected generic error was returned
}

func newDS(h *history, p *plan, mirror bool) *fds {
	return &fds{h: h, p: p, mirror: mirror, fired: map[string]int{}}
}

func (d *fds) NotFound(err error) bool { return err == errNotFound }

func (d *fds) serve(k key) ([]*ver, error) {
	d.calls++
	d.order = append(d.order, k)
	if d.p.failAt > 0 && d.calls == d.p.failAt {
		d.genErr = true
		d.fired["generic-error-on-call"]++
		return nil, errInjected
	}
	if _, ok := d.h.kids[k]; !ok || d.p.missing[k] {
		d.fired["history-missing"]++
		return nil, errNotFound
	}
	vs := d.p.surviving(d.h, k)
	if len(d.p.dropped[k]) > 0 {
		d.fired["version-dropped"]++
	}
	if last := d.h.parents[len(d.h.parents)-1]; len(vs) > 0 && vs[len(vs)-1].commit.After(last.commit) {
		d.fired["newer-versions-present"]++
	}
	if s := d.p.shuffle[k]; s != 0 && len(vs) > 1 {
		vs = append([]*ver(nil), vs...)
		sorted := true
		for i := len(vs) - 1; i > 0; i-- {
			s = kit.Mix(s)
			j := int(s % uint64(i+1))
			vs[i], vs[j] = vs[j], vs[i]
		}
		for i := 1; i < len(vs); i++ {
			if vs[i].version < vs[i-1].version {
				sorted = false
			}
		}
		if !sorted {
			d.fired["history-unsorted"]++
		}
	}
	return vs, nil
}

func (d *fds) key(typ int, id int64) key { return d.h.unmirror(typ, id, d.mirror) }

func (d *fds) NodeHistory(ctx context.Context, id osm.NodeID) (osm.Nodes, error) {
	vs, err := d.serve(d.key(tNode, int64(id)))
	if err != nil {
		return nil, err
	}
	out := make(osm.Nodes, 0, len(vs))
	for _, v := range vs {
		out = append(out, d.h.nodeOf(v, d.mirror))
	}
	return out, nil
}

func (d *fds) WayHistory(ctx context.Context, id osm.WayID) (osm.Ways, error) {
	vs, err := d.serve(d.key(tWay, int64(id)))
	if err != nil {
		return nil, err
	}
	out := make(osm.Ways, 0, len(vs))
	for _, v := range vs {
		out = append(out, d.h.wayOf(v, d.mirror))
	}
	return out, nil
}

func (d *fds) RelationHistory(ctx context.Context, id osm.RelationID) (osm.Relations, error) {
	vs, err := d.serve(d.key(tRel, int64(id)))
	if err != nil {
		return nil, err
	}
	out := make(osm.Relations, 0, len(vs))
	for _, v := range vs {
		out = append(out, d.h.relationOf(v, d.mirror))
	}
	return out, nil
}

// fdsChildren additionally implements the advanced interfaces that hand the library
// pre-built children (version-sorted, VersionIndex filled in: that is their contract).
type fdsChildren struct{ *fds }

func (d fdsChildren) children(typ int, id int64) ([]*shared.Child, error) {
	k := d.key(typ, id)
	vs, err := d.serve(k)
	if err != nil {
		return nil, err
	}
	vs = append([]*ver(nil), vs...)
	sort.Slice(vs, func(i, j int) bool { return vs[i].version < vs[j].version })
	out := make([]*shared.Child, 0, len(vs))
	var prev *osm.Way
	for i, v := range vs {
		var c *shared.Child
		switch typ {
		case tNode:
			c = shared.FromNode(d.h.nodeOf(v, d.mirror))
		case tWay:
			w := d.h.wayOf(v, d.mirror)
			c = shared.FromWay(w)
			if prev != nil {
				c.ReverseOfPrevious = endpointsFlipped(prev, w)
			}
			prev = w
		default:
			c = shared.FromRelation(d.h.relationOf(v, d.mirror))
		}
		c.VersionIndex = i
		out = append(out, c)
	}
	return out, nil
}

func endpointsFlipped(a, b *osm.Way) bool {
	if len(a.Nodes) < 2 || len(b.Nodes) < 2 {
		return false
	}
	return a.Nodes[0].ID == b.Nodes[len(b.Nodes)-1].ID && b.Nodes[0].ID == a.Nodes[len(a.Nodes)-1].ID
}

func (d fdsChildren) NodeHistoryAsChildren(ctx context.Context, id osm.NodeID) ([]*shared.Child, error) {
	return d.children(tNode, int64(id))
}
func (d fdsChildren) WayHistoryAsChildren(ctx context.Context, id osm.WayID) ([]*shared.Child, error) {
	return d.children(tWay, int64(id))
}
func (d fdsChildren) RelationHistoryAsChildren(ctx context.Context, id osm.RelationID) ([]*shared.Child, error) {
	return d.children(tRel, int64(id))
}

// orderHash identifies the order in which the children were fetched (= the map order used).
func (d *fds) orderHash() uint64 {
	var sb strings.Builder
	for _, k := range d.order {
		sb.WriteString(k.String())
		sb.WriteByte(' ')
	}
	return kit.HashStr(5, sb.String())
}
