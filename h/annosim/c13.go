package annosim

import (
	"context"
	"fmt"
	"sort"
	"strings"
	"testing"

	"github.com/paulmach/osm"
	"github.com/paulmach/osm/annotate"

	"h/kit"
)

// C13 — annotating a change yields the exact old/new diff for every element.
//
// The simulated database holds, per element, a version list (gaps allowed). An upload writes
// one new version for a handful of elements (create / modify / delete); later uploads may
// add further versions. The change handed to annotate.Change is that upload; the datasource
// serves each element's history through a fault plan.

const c13Batch = 40

// c13elem is one element of the change.
type c13elem struct {
	section  int // 0 create, 1 modify, 2 delete
	k        key
	version  int
	inVis    bool  // Visible flag of the input element (must be overwritten)
	truth    []int // versions in the database, ascending (includes own and later ones)
	served   []int // what the datasource returns, in served order; nil+missing = NotFound
	missing  bool  // NotFound
	empty    bool  // empty history, nil error
	unsorted bool
}

type c13change struct {
	elems  []c13elem // in document order: create, modify, delete; node, way, relation within each
	ignore bool
	failAt int // generic error on the i-th datasource call
}

var sectionNames = [3]string{"create", "modify", "delete"}

func genChange(t *kit.Tape) *c13change {
	c := &c13change{}
	c.ignore = t.Bool()
	nextID := [3]int64{}
	type prior struct {
		k       key
		version int
		truth   []int
	}
	var priors []prior // elements already in the change (an element may appear in two sections)
	for section := 0; section < 3; section++ {
		for typ := 0; typ < 3; typ++ {
			n := t.Draw(3)
			if section == 1 && typ == 0 && n == 0 && t.Used() < 8 {
				// keep the minimal change non-empty: one modified node
				n = 1
			}
			for i := 0; i < n; i++ {
				var e c13elem
				e.section = section
				e.inVis = t.Bool()
				reuse := -1
				if section > 0 && len(priors) > 0 && t.Chance(1, 15) {
					// the same element changed twice in one upload (e.g. created then modified)
					for j, p := range priors {
						if p.k.typ == typ {
							reuse = j
						}
					}
				}
				if reuse >= 0 {
					p := priors[reuse]
					e.k = p.k
					e.version = p.version + 1
					for _, v := range p.truth {
						if v < e.version {
							e.truth = append(e.truth, v)
						}
					}
					e.truth = append(e.truth, e.version)
					for _, v := range p.truth {
						if v > e.version {
							e.truth = append(e.truth, v)
						}
					}
				} else {
					nextID[typ]++
					e.k = key{typ, nextID[typ]}
					if section == 0 {
						e.version = 1
						e.truth = []int{1}
					} else {
						// earlier versions: a random subset of 1..version-1, possibly empty
						e.version = 2 + t.Draw(6)
						for v := 1; v < e.version; v++ {
							if !t.Chance(1, 3) {
								e.truth = append(e.truth, v)
							}
						}
						e.truth = append(e.truth, e.version)
					}
				}
				// later versions present
				if t.Chance(1, 3) {
					for v, n := e.truth[len(e.truth)-1], 1+t.Draw(2); n > 0; n-- {
						v += 1 + t.Draw(2)
						e.truth = append(e.truth, v)
					}
				}
				priors = append(priors, prior{e.k, e.version, append([]int(nil), e.truth...)})
				// fault plan of the served history
				e.served = append([]int(nil), e.truth...)
				switch t.Draw(16) {
				case 12:
					e.missing = true
					e.served = nil
				case 13:
					e.empty = true
					e.served = nil
				case 14, 15:
					var kept []int
					for _, v := range e.served {
						if !t.Chance(1, 3) {
							kept = append(kept, v)
						}
					}
					e.served = kept
					if len(kept) == 0 {
						e.empty = true
					}
				}
				if len(e.served) > 1 && t.Bool() {
					s := uint64(1 + t.Draw(1<<20))
					for i := len(e.served) - 1; i > 0; i-- {
						s = kit.Mix(s)
						j := int(s % uint64(i+1))
						e.served[i], e.served[j] = e.served[j], e.served[i]
					}
					e.unsorted = !sort.IntsAreSorted(e.served)
				}
				// an element changed twice has one history: the datasource serves the plan of its first
				// modify/delete occurrence
				for _, f := range c.elems {
					if f.k == e.k && f.section > 0 {
						e.served, e.missing, e.empty, e.unsorted = f.served, f.missing, f.empty, f.unsorted
						break
					}
				}
				c.elems = append(c.elems, e)
			}
		}
	}
	if t.Chance(1, 12) {
		c.failAt = 1 + t.Draw(len(c.elems)+1)
	}
	return c
}

func (c *c13change) hash() uint64 {
	var sb strings.Builder
	fmt.Fprintf(&sb, "%v %d|", c.ignore, c.failAt)
	for _, e := range c.elems {
		fmt.Fprintf(&sb, "%d %s %d %v %v %v %v;", e.section, e.k, e.version, e.truth, e.served, e.missing, e.empty)
	}
	return kit.HashStr(13, sb.String())
}

func (c *c13change) describe() []string {
	var out []string
	for _, e := range c.elems {
		s := fmt.Sprintf("%s %s v%d: database versions %v", sectionNames[e.section], e.k, e.version, e.truth)
		switch {
		case e.section == 0:
		case e.missing:
			s += "; datasource: not found"
		case e.empty:
			s += "; datasource: empty history"
		default:
			s += fmt.Sprintf("; datasource serves %v", e.served)
		}
		out = append(out, s)
	}
	return out
}

// c13ds serves the histories of one change.
type c13ds struct {
	c      *c13change
	calls  int
	order  []string
	fired  map[string]int
	genErr bool
	nodes  map[string]*osm.Node // served objects by "key/version" of the latest call
	ways   map[string]*osm.Way
	rels   map[string]*osm.Relation
}

func (d *c13ds) NotFound(err error) bool { return err == errNotFound }

// find returns the change element whose history is requested. When an element occurs twice
// in the change both occurrences share the database history; the plan of the first is served.
func (d *c13ds) find(k key) *c13elem {
	for i := range d.c.elems {
		if d.c.elems[i].k == k && d.c.elems[i].section > 0 {
			return &d.c.elems[i]
		}
	}
	return nil
}

func (d *c13ds) serve(k key) (*c13elem, error) {
	d.calls++
	d.order = append(d.order, k.String())
	if d.c.failAt > 0 && d.calls == d.c.failAt {
		d.genErr = true
		d.fired["generic-error-on-call"]++
		return nil, errInjected
	}
	e := d.find(k)
	if e == nil || e.missing {
		d.fired["history-missing"]++
		return nil, errNotFound
	}
	if e.empty {
		d.fired["empty-history"]++
	}
	if e.unsorted {
		d.fired["history-unsorted"]++
	}
	if len(e.served) < len(e.truth) && !e.empty {
		d.fired["version-dropped"]++
	}
	for _, v := range e.served {
		if v > e.version {
			d.fired["newer-versions-present"]++
			break
		}
	}
	return e, nil
}

func (d *c13ds) NodeHistory(ctx context.Context, id osm.NodeID) (osm.Nodes, error) {
	k := key{tNode, int64(id)}
	e, err := d.serve(k)
	if err != nil {
		return nil, err
	}
	var out osm.Nodes
	for _, v := range e.served {
		n := &osm.Node{ID: id, Version: v, Visible: v%3 != 0, Lat: float64(v), Lon: float64(id)}
		d.nodes[fmt.Sprintf("%s/%d", k, v)] = n
		out = append(out, n)
	}
	return out, nil
}

func (d *c13ds) WayHistory(ctx context.Context, id osm.WayID) (osm.Ways, error) {
	k := key{tWay, int64(id)}
	e, err := d.serve(k)
	if err != nil {
		return nil, err
	}
	var out osm.Ways
	for _, v := range e.served {
		w := &osm.Way{ID: id, Version: v, Visible: v%3 != 0, Nodes: osm.WayNodes{{ID: osm.NodeID(v)}}}
		d.ways[fmt.Sprintf("%s/%d", k, v)] = w
		out = append(out, w)
	}
	return out, nil
}

func (d *c13ds) RelationHistory(ctx context.Context, id osm.RelationID) (osm.Relations, error) {
	k := key{tRel, int64(id)}
	e, err := d.serve(k)
	if err != nil {
		return nil, err
	}
	var out osm.Relations
	for _, v := range e.served {
		r := &osm.Relation{ID: id, Version: v, Visible: v%3 != 0, Members: osm.Members{{Type: osm.TypeNode, Ref: int64(v)}}}
		d.rels[fmt.Sprintf("%s/%d", k, v)] = r
		out = append(out, r)
	}
	return out, nil
}

// want is the expected action for one element of the change.
type c13want struct {
	kind   string // "create" | "modify" | "delete" | "fail"
	oldVer int
}

func (c *c13change) expect() []c13want {
	out := make([]c13want, len(c.elems))
	for i, e := range c.elems {
		if e.section == 0 {
			out[i] = c13want{kind: "create"}
			continue
		}
		// the history served for this element is the plan of its first non-create occurrence
		src := e
		for _, f := range c.elems {
			if f.k == e.k && f.section > 0 {
				src = f
				break
			}
		}
		old := -1
		if !src.missing {
			for _, v := range src.served {
				if v < e.version && v > old {
					old = v
				}
			}
		}
		switch {
		case old >= 0:
			out[i] = c13want{kind: sectionNames[e.section], oldVer: old}
		case c.ignore:
			out[i] = c13want{kind: "create"}
		default:
			out[i] = c13want{kind: "fail"}
		}
	}
	return out
}

func runC13(t *testing.T, r *kit.Run) {
	pin := pinOf(r)
	var wl uint64
	sampled := false
	for hi := 0; hi < c13Batch; hi++ {
		c := genChange(r.Tape)
		wl = kit.Mix(wl ^ c.hash())
		if pin >= 0 && hi != pin {
			continue
		}
		nt := c13Change(r, hi, c)
		if (nt && !sampled) || pin >= 0 {
			sampled = true
			r.Out.Scenario = map[string]interface{}{"ignore_missing": c.ignore, "generic_error_on_call": c.failAt, "elements": c.describe()}
		}
	}
	r.Out.Workload = wl
}

func elemOf(o *osm.OSM) (typ int, id int64, version int, visible bool, n int) {
	if o == nil {
		return 0, 0, 0, false, 0
	}
	n = len(o.Nodes) + len(o.Ways) + len(o.Relations)
	switch {
	case len(o.Nodes) > 0:
		x := o.Nodes[0]
		return tNode, int64(x.ID), x.Version, x.Visible, n
	case len(o.Ways) > 0:
		x := o.Ways[0]
		return tWay, int64(x.ID), x.Version, x.Visible, n
	case len(o.Relations) > 0:
		x := o.Relations[0]
		return tRel, int64(x.ID), x.Version, x.Visible, n
	}
	return 0, 0, 0, false, 0
}

func c13Change(r *kit.Run, hi int, c *c13change) bool {
	o := r.Out
	pinStr := fmt.Sprintf("[[h=%d]] ", hi)
	reported := map[string]bool{}
	violate := func(class, f string, a ...interface{}) {
		if reported[class] {
			return
		}
		reported[class] = true
		o.Violate(class, pinStr+"change {"+strings.Join(c.describe(), " | ")+fmt.Sprintf("} ignore-missing=%v: ", c.ignore)+f, a...)
	}

	// build the change document
	change := &osm.Change{}
	sections := [3]**osm.OSM{&change.Create, &change.Modify, &change.Delete}
	inputs := make([]osm.Object, len(c.elems))
	for i, e := range c.elems {
		s := sections[e.section]
		if *s == nil {
			*s = &osm.OSM{}
		}
		switch e.k.typ {
		case tNode:
			n := &osm.Node{ID: osm.NodeID(e.k.id), Version: e.version, Visible: e.inVis, Lat: 50 + float64(e.version), Lon: float64(e.k.id)}
			(*s).Nodes = append((*s).Nodes, n)
			inputs[i] = n
		case tWay:
			w := &osm.Way{ID: osm.WayID(e.k.id), Version: e.version, Visible: e.inVis}
			(*s).Ways = append((*s).Ways, w)
			inputs[i] = w
		default:
			rl := &osm.Relation{ID: osm.RelationID(e.k.id), Version: e.version, Visible: e.inVis}
			(*s).Relations = append((*s).Relations, rl)
			inputs[i] = rl
		}
	}
	ds := &c13ds{c: c, fired: map[string]int{}, nodes: map[string]*osm.Node{}, ways: map[string]*osm.Way{}, rels: map[string]*osm.Relation{}}
	var opts []annotate.Option
	if c.ignore {
		opts = append(opts, annotate.IgnoreMissingChildren(true))
	}
	var diff *osm.Diff
	var err error
	panicMsg := ""
	func() {
		defer func() {
			if p := recover(); p != nil {
				panicMsg = fmt.Sprint(p)
			}
		}()
		diff, err = annotate.Change(context.Background(), change, ds, opts...)
	}()
	o.Evals++
	sched := kit.HashStr(7, strings.Join(ds.order, " "))
	o.Scheds = append(o.Scheds, sched)
	for _, name := range sortedStrs(ds.fired) {
		o.Fault(name)
	}

	want := c.expect()
	var failing []key
	nontrivial := len(ds.fired) > 0
	for i, w := range want {
		if w.kind == "fail" {
			failing = append(failing, c.elems[i].k)
		}
		if c.elems[i].section > 0 {
			below := 0
			for _, v := range c.elems[i].served {
				if v < c.elems[i].version {
					below++
				}
			}
			if below >= 2 {
				nontrivial = true
				o.Probe("several-lower-versions-to-choose-from")
			}
			if w.kind == "create" {
				o.Probe("missing-turned-into-create")
			}
		}
	}
	seen := map[key]bool{}
	for _, e := range c.elems {
		if seen[e.k] {
			o.Probe("element-changed-twice-in-one-change")
		}
		seen[e.k] = true
	}
	if nontrivial {
		o.NonTrivial++
		o.Pairs = append(o.Pairs, kit.Mix(c.hash()^sched))
	}

	if panicMsg != "" {
		violate("C13/crash", "panic: %s", panicMsg)
		return nontrivial
	}
	if ds.genErr {
		// a datasource failure other than not-found is returned as is (a typed error for an element
		// that legitimately fails is accepted too: the statement does not say which comes first)
		o.Probe("generic-datasource-error-returned")
		switch e := err.(type) {
		case nil:
			violate("C13/datasource-error-swallowed", "the datasource failed on call %d with %q but Change succeeded", c.failAt, errInjected)
		case *annotate.NoVisibleChildError, *annotate.NoHistoryError:
			if len(failing) == 0 {
				violate("C13/datasource-error-not-returned-as-is", "the datasource failed on call %d; Change returned %T %v", c.failAt, e, e)
			}
		default:
			if err != errInjected {
				violate("C13/datasource-error-not-returned-as-is", "the datasource failed on call %d with %q; Change returned %T %v", c.failAt, errInjected, err, err)
			}
		}
		return nontrivial
	}
	if len(failing) > 0 {
		o.Probe("typed-error-expected")
		var id osm.FeatureID
		switch e := err.(type) {
		case nil:
			violate("C13/missing-history-reported-success", "elements %v have no earlier version in the served history and missing children are not ignored, but Change succeeded", failing)
			return nontrivial
		case *annotate.NoVisibleChildError:
			id = e.ID
		case *annotate.NoHistoryError:
			id = e.ID
		default:
			violate("C13/wrong-error-type", "elements %v have no earlier version: want *annotate.NoVisibleChildError or *annotate.NoHistoryError, got %T %v", failing, err, err)
			return nontrivial
		}
		ok := false
		for _, k := range failing {
			if id.Type() == typeNames[k.typ] && id.Ref() == k.id {
				ok = true
			}
		}
		if !ok {
			violate("C13/error-names-wrong-element", "elements without an earlier version: %v; the error names %v", failing, id)
		}
		return nontrivial
	}
	if err != nil {
		violate("C13/unexpected-error", "every modified/deleted element has an earlier version (or missing ones are ignored) but Change returned %T %v", err, err)
		return nontrivial
	}
	if diff == nil {
		violate("C13/nil-diff", "Change returned nil, nil")
		return nontrivial
	}
	if len(diff.Actions) != len(want) {
		violate("C13/wrong-action-count", "%d actions for %d changed elements", len(diff.Actions), len(want))
		return nontrivial
	}
	for i, a := range diff.Actions {
		e, w := c.elems[i], want[i]
		where := fmt.Sprintf("action %d (%s %s v%d)", i, sectionNames[e.section], e.k, e.version)
		switch w.kind {
		case "create":
			typ, id, ver, vis, n := elemOf(a.OSM)
			if a.Type != osm.ActionCreate {
				violate("C13/wrong-action-type", "%s: want a create action, got %q", where, a.Type)
				continue
			}
			if n != 1 || typ != e.k.typ || id != e.k.id || ver != e.version {
				violate("C13/wrong-element-or-order", "%s: the create action holds %d elements, first %c%d v%d", where, n, "nwr"[typ], id, ver)
				continue
			}
			if !vis {
				violate("C13/create-not-visible", "%s: created element is not marked visible", where)
			}
			if a.Old != nil || a.New != nil {
				violate("C13/create-with-old-or-new", "%s: create action carries old/new", where)
			}
		default:
			wantType := osm.ActionModify
			if w.kind == "delete" {
				wantType = osm.ActionDelete
			}
			if a.Type != wantType {
				violate("C13/wrong-action-type", "%s: want %q, got %q", where, wantType, a.Type)
				continue
			}
			ntyp, nid, nver, nvis, nn := elemOf(a.New)
			if nn != 1 || ntyp != e.k.typ || nid != e.k.id || nver != e.version {
				violate("C13/wrong-element-or-order", "%s: new holds %d elements, first %c%d v%d", where, nn, "nwr"[ntyp], nid, nver)
				continue
			}
			if nvis != (w.kind == "modify") {
				violate("C13/wrong-new-visibility", "%s: new.visible=%v", where, nvis)
			}
			otyp, oid, over, _, on := elemOf(a.Old)
			if on != 1 || otyp != e.k.typ || oid != e.k.id {
				violate("C13/wrong-old-element", "%s: old holds %d elements, first %c%d v%d", where, on, "nwr"[otyp], oid, over)
				continue
			}
			if over != w.oldVer {
				violate("C13/wrong-old-version", "%s: old is v%d, the greatest served version below v%d is v%d", where, over, e.version, w.oldVer)
				continue
			}
			// the old state is the history's element, unmodified
			hk := fmt.Sprintf("%s/%d", e.k, over)
			same := false
			switch e.k.typ {
			case tNode:
				s := ds.nodes[hk]
				g := a.Old.Nodes[0]
				same = s != nil && g.Visible == (over%3 != 0) && g.Lat == float64(over) && g.Lon == float64(e.k.id)
			case tWay:
				g := a.Old.Ways[0]
				same = ds.ways[hk] != nil && g.Visible == (over%3 != 0) && len(g.Nodes) == 1 && int(g.Nodes[0].ID) == over
			default:
				g := a.Old.Relations[0]
				same = ds.rels[hk] != nil && g.Visible == (over%3 != 0) && len(g.Members) == 1 && int(g.Members[0].Ref) == over
			}
			if !same {
				violate("C13/old-state-altered", "%s: old v%d does not carry the content the history has for that version", where, over)
			}
			if a.OSM != nil {
				violate("C13/update-with-plain-element", "%s: modify/delete action also carries a plain element", where)
			}
		}
		// the new element is the change's element
		switch x := inputs[i].(type) {
		case *osm.Node:
			if x.Lat != 50+float64(e.version) {
				violate("C13/new-state-altered", "%s: content of the changed element was modified", where)
			}
		}
	}
	o.Probe("diff-exact")
	return nontrivial
}
