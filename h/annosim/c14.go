package annosim

import (
	"context"
	"fmt"
	"sort"
	"strings"
	"testing"
	"time"

	"github.com/paulmach/osm"
	"github.com/paulmach/osm/annotate"
	"github.com/paulmach/osm/simrt"

	"h/kit"
	"h/simu"
)

// C14 — child-first relation ordering: children before parents, once, always ends.
//
// A run is a batch of scenarios. A scenario is a relation reference graph, a request list, a
// delay policy for the producer goroutine, the consumer and the canceller, a stop plan
// (Close / cancel after j Next calls from the consumer, or from a second goroutine after a
// drawn simulated duration) and a datasource fault plan. Each scenario is one execution of
// annotate.NewChildFirstOrdering inside the simulator.

const c14Batch = 10

type relVer struct {
	rels   []int64 // relation members
	others int     // node and way members (ignored by the ordering)
}

type relGraph struct {
	n    int
	hist map[int64][]relVer // relation id -> versions; absent = no history. Never ranged over.
	ids  []int64            // relations with history, ascending
	req  []int64            // request list
}

const (
	stopNone = iota
	stopCloseByConsumer
	stopCancelByConsumer
	stopCancelBySecond
	stopCloseBySecond
)

var stopNames = [5]string{"none", "close-after-j", "cancel-after-j", "cancel-from-second-goroutine", "close-from-second-goroutine"}

type c14scn struct {
	g        relGraph
	stop     int
	j        int   // consumer-side stops: after j Next calls
	after    int64 // second-goroutine stops: quanta to sleep first
	failAt   int   // datasource error on this call, 0 = never
	ctxAware bool  // the datasource returns ctx.Err() when called with a cancelled context
	consMean int64
	prodMean int64
	cancMean int64
	stallAt  int64 // the producer stalls at this yield (slow datasource call / slow producer), 0 = never
	stallQ   int64
}

var c14Means = []int64{4, 1, 40, 400}

func genC14(t *kit.Tape) *c14scn {
	s := &c14scn{}
	g := &s.g
	g.hist = map[int64][]relVer{}
	mode := t.Draw(3) // 0 DAG, 1 general (cycles), 2 general with self references
	maxN := 10
	if mode != 0 {
		maxN = 7
	}
	g.n = 1 + t.Draw(maxN)
	n := int64(g.n)
	for id := int64(1); id <= n; id++ {
		if t.Chance(1, 7) {
			continue // no history
		}
		nv := 1 + t.Draw(3)
		var vs []relVer
		for v := 0; v < nv; v++ {
			var rv relVer
			for m := t.Draw(4); m > 0; m-- {
				switch t.Draw(4) {
				case 1, 2:
					rv.others++
				default:
					var ref int64
					switch mode {
					case 0:
						// only larger ids; n+1 does not exist
						ref = id + 1 + int64(t.Draw(int(n-id)+1))
					case 1:
						ref = 1 + int64(t.Draw(int(n)+1))
					default:
						ref = id
						if t.Bool() {
							ref = 1 + int64(t.Draw(int(n)+1))
						}
					}
					rv.rels = append(rv.rels, ref)
				}
			}
			vs = append(vs, rv)
		}
		g.hist[id] = vs
		g.ids = append(g.ids, id)
	}
	for k := t.Draw(g.n + 3); k > 0; k-- {
		g.req = append(g.req, 1+int64(t.Draw(g.n+1)))
	}
	s.stop = t.Draw(5)
	jmax := g.n
	if len(g.req) < jmax {
		jmax = len(g.req)
	}
	s.j = t.Draw(jmax + 2)
	s.after = int64(t.Draw(60))
	if t.Chance(1, 5) {
		s.failAt = 1 + t.Draw(2*g.n+2)
	}
	s.ctxAware = t.Bool()
	s.consMean = c14Means[t.Draw(4)]
	s.prodMean = c14Means[t.Draw(4)]
	s.cancMean = c14Means[t.Draw(4)]
	// the second goroutine's stop should land anywhere in the iteration, whose length scales with the delays
	span := s.consMean
	if s.prodMean > span {
		span = s.prodMean
	}
	if t.Chance(3, 4) {
		s.after = int64(t.Draw(int(span)*4*(jmax+2) + 1))
	}
	if t.Chance(1, 4) {
		s.stallAt = int64(1 + t.Draw(40))
		s.stallQ = int64(1 + t.Draw(5000))
	}
	return s
}

func (s *c14scn) describe() map[string]interface{} {
	var rels []string
	for _, id := range s.g.ids {
		var vs []string
		for _, v := range s.g.hist[id] {
			vs = append(vs, fmt.Sprintf("%v+%d", v.rels, v.others))
		}
		rels = append(rels, fmt.Sprintf("r%d: %s", id, strings.Join(vs, " ; ")))
	}
	m := map[string]interface{}{
		"relations_1_to": s.g.n, "histories (relation members + other members per version)": rels, "request": s.g.req,
		"stop": stopNames[s.stop], "mean_delay_consumer": s.consMean, "mean_delay_producer": s.prodMean,
	}
	switch s.stop {
	case stopCloseByConsumer, stopCancelByConsumer:
		m["after_next_calls"] = s.j
	case stopCancelBySecond, stopCloseBySecond:
		m["after_quanta"] = s.after
		m["mean_delay_canceller"] = s.cancMean
	}
	if s.failAt > 0 {
		m["datasource_error_on_call"] = s.failAt
	}
	if s.stallAt > 0 {
		m["producer_stall"] = fmt.Sprintf("%d quanta at its yield %d", s.stallQ, s.stallAt)
	}
	if s.ctxAware {
		m["datasource_checks_context"] = true
	}
	return m
}

func (s *c14scn) hash() uint64 {
	var sb strings.Builder
	g := &s.g
	fmt.Fprintf(&sb, "%d|", g.n)
	for _, id := range g.ids {
		fmt.Fprintf(&sb, "%d:%v;", id, g.hist[id])
	}
	fmt.Fprintf(&sb, "|%v|%d %d %d %d %v", g.req, s.stop, s.j, s.after, s.failAt, s.ctxAware)
	return kit.HashStr(14, sb.String())
}

// children lists the relations with a history referenced by any version of id.
func (g *relGraph) children(id int64) []int64 {
	var out []int64
	seen := map[int64]bool{}
	for _, v := range g.hist[id] {
		for _, c := range v.rels {
			if _, ok := g.hist[c]; ok && !seen[c] {
				seen[c] = true
				out = append(out, c)
			}
		}
	}
	return out
}

// reach is the set of relations with history reachable from id through at least one reference.
func (g *relGraph) reach(id int64) map[int64]bool {
	seen := map[int64]bool{}
	stack := []int64{id}
	for len(stack) > 0 {
		x := stack[len(stack)-1]
		stack = stack[:len(stack)-1]
		for _, c := range g.children(x) {
			if !seen[c] {
				seen[c] = true
				stack = append(stack, c)
			}
		}
	}
	return seen
}

// acyclic reports whether no relation with history reaches itself.
func (g *relGraph) acyclic() bool {
	for _, id := range g.ids {
		if g.reach(id)[id] {
			return false
		}
	}
	return true
}

// c14ds is the simulated relation datasource.
type c14ds struct {
	s     *c14scn
	calls int
	fired bool
	ctxEr bool
	order []int64
}

func (d *c14ds) NotFound(err error) bool { return err == errNotFound }

func (d *c14ds) RelationHistory(ctx context.Context, id osm.RelationID) (osm.Relations, error) {
	simrt.Yield("ds.RelationHistory")
	d.calls++
	d.order = append(d.order, int64(id))
	if d.s.failAt > 0 && d.calls == d.s.failAt {
		d.fired = true
		return nil, errInjected
	}
	if d.s.ctxAware && ctx.Err() != nil {
		d.ctxEr = true
		return nil, ctx.Err()
	}
	vs, ok := d.s.g.hist[int64(id)]
	if !ok {
		return nil, errNotFound
	}
	var out osm.Relations
	for i, v := range vs {
		r := &osm.Relation{ID: id, Version: i + 1, Visible: true}
		k := 0
		for _, c := range v.rels {
			// interleave the other members between the relation members
			if k < v.others {
				typ := osm.TypeNode
				if k%2 == 1 {
					typ = osm.TypeWay
				}
				r.Members = append(r.Members, osm.Member{Type: typ, Ref: c}) // same ref number, different type
				k++
			}
			r.Members = append(r.Members, osm.Member{Type: osm.TypeRelation, Ref: c})
		}
		for ; k < v.others; k++ {
			r.Members = append(r.Members, osm.Member{Type: osm.TypeWay, Ref: int64(k + 1)})
		}
		out = append(out, r)
	}
	return out, nil
}

type nextCall struct {
	t0, t1 int64
	ok     bool
	id     int64
}

// c14obs is what one execution leaves behind for the oracle.
type c14obs struct {
	phase        string
	nexts        []nextCall
	stopInvoked  int64 // simulated time the stop (Close/cancel) was invoked, 0 = not
	stopReturned int64
	errAtEnd     error // Err() when Next first returned false
	liveAfterEnd []string
	closeDone    bool
	nextAfter    bool // Next after the final Close
	liveAtClose  []string
	liveQuiet    []string // library goroutines alive a simulated hour after a bare cancel
	quietChecked bool
}

func runC14(t *testing.T, r *kit.Run) {
	pin := pinOf(r)
	var wl uint64
	sampled := false
	for hi := 0; hi < c14Batch; hi++ {
		s := genC14(r.Tape)
		wl = kit.Mix(wl ^ s.hash())
		if pin >= 0 && hi != pin {
			continue
		}
		nt := c14Scenario(t, r, hi, s)
		if (nt && !sampled) || pin >= 0 {
			sampled = true
			r.Out.Scenario = s.describe()
		}
	}
	r.Out.Workload = wl
}

func c14Scenario(t *testing.T, r *kit.Run, hi int, s *c14scn) bool {
	o := r.Out
	g := &s.g
	pinStr := fmt.Sprintf("[[h=%d]] ", hi)
	sched := r.Sched
	sched.Seed = kit.Mix(r.Sched.Seed + uint64(hi)*977)

	cfg := simu.Cfg{Sched: sched, Name: "consumer", MaxYields: 60000, KeepTrace: r.Replay,
		Means: []simrt.Mean{{Match: "canceller", Mean: s.cancMean}, {Match: "order.go", Mean: s.prodMean}, {Match: "consumer", Mean: s.consMean}}}
	if s.stallAt > 0 {
		cfg.Stalls = append(cfg.Stalls, simrt.Stall{Match: "order.go", AtYield: s.stallAt, Quanta: s.stallQ})
	}
	second := s.stop == stopCancelBySecond || s.stop == stopCloseBySecond
	if second {
		cfg.Stalls = append(cfg.Stalls, simrt.Stall{Match: "canceller", AtYield: 1, Quanta: s.after})
	}
	ds := &c14ds{s: s}
	ob := &c14obs{}
	ids := make([]osm.RelationID, len(g.req))
	for i, id := range g.req {
		ids[i] = osm.RelationID(id)
	}
	maxNext := g.n + 6

	res := simu.Run(t, cfg, func(sim *simrt.Sim, root context.Context) {
		now := func() int64 { return time.Now().UnixNano() }
		ctx, cancel := context.WithCancel(root)
		defer cancel()
		ob.phase = "NewChildFirstOrdering"
		ord := annotate.NewChildFirstOrdering(ctx, ids, ds)
		doStop := func() {
			ob.stopInvoked = now()
			if s.stop == stopCloseByConsumer || s.stop == stopCloseBySecond {
				ord.Close()
			} else {
				cancel()
			}
			ob.stopReturned = now()
		}
		if second {
			simrt.GoNamed("canceller", func() {
				simrt.Yield("canceller.fire")
				doStop()
			})
		}
		for len(ob.nexts) < maxNext && sim.Aborted() == "" {
			if !second && s.stop != stopNone && len(ob.nexts) == s.j && ob.stopInvoked == 0 {
				ob.phase = "stop invoked by the consumer"
				simrt.Yield("consumer.stop")
				doStop()
			}
			ob.phase = fmt.Sprintf("Next call %d", len(ob.nexts)+1)
			simrt.Yield("consumer.Next")
			c := nextCall{t0: now()}
			c.ok = ord.Next()
			c.t1 = now()
			if c.ok {
				c.id = int64(ord.RelationID())
			}
			ob.nexts = append(ob.nexts, c)
			if !c.ok {
				break
			}
		}
		ob.phase = "Err"
		ob.errAtEnd = ord.Err()
		if !second && s.stop != stopNone && ob.stopInvoked == 0 {
			// the iteration ended before the j-th call: stop after the end
			ob.phase = "stop invoked by the consumer"
			simrt.Yield("consumer.stop")
			doStop()
		}
		// once false, Next stays false
		ob.phase = "Next after the end"
		simrt.Yield("consumer.Next")
		c := nextCall{t0: now()}
		c.ok = ord.Next()
		c.t1 = now()
		if c.ok {
			c.id = int64(ord.RelationID())
		}
		ob.nexts = append(ob.nexts, c)
		if s.stop == stopCancelByConsumer || s.stop == stopCancelBySecond {
			// a bare cancel must end the producer goroutine on its own
			ob.phase = "waiting for quiescence after cancel"
			time.Sleep(time.Hour)
			if ob.stopInvoked != 0 {
				ob.liveQuiet = sim.LiveLib()
				ob.quietChecked = true
			}
		}
		ob.phase = "final Close"
		simrt.Yield("consumer.Close")
		ord.Close()
		ob.closeDone = true
		ob.liveAtClose = sim.LiveLib()
		ob.phase = "Next after Close"
		ob.nextAfter = ord.Next()
		ob.phase = "done"
	})

	// ---- bookkeeping
	o.Evals++
	o.SimNanos += res.SimNanos
	o.Yields += res.Yields
	o.Scheds = append(o.Scheds, res.SchedHash)
	o.States = append(o.States, res.States...)
	if r.Replay {
		o.Trace = res.Trace
	}
	if s.stop != stopNone && ob.stopInvoked != 0 {
		o.Fault(stopNames[s.stop])
	}
	if ds.fired {
		o.Fault("generic-error-on-call")
	}
	if s.stallAt > 0 {
		o.Fault("slow-call")
	}
	if ds.ctxEr {
		o.Fault("datasource-returned-context-error")
	}

	acyclic := g.acyclic()
	edges := 0
	for _, id := range g.ids {
		edges += len(g.children(id))
	}
	nontrivial := edges > 0 || ob.stopInvoked != 0 || ds.fired
	if nontrivial {
		o.NonTrivial++
		o.Pairs = append(o.Pairs, kit.Mix(s.hash()^res.SchedHash))
	}

	reported := map[string]bool{}
	violate := func(class, f string, a ...interface{}) {
		if reported[class] {
			return
		}
		reported[class] = true
		js := fmt.Sprint(s.describe())
		o.Violate(class, pinStr+f+" — scenario: "+js, a...)
	}
	stopName := strings.Split(stopNames[s.stop], "-")[0] // close | cancel | none

	// ---- process-level symptoms
	if len(res.Crashes) > 0 {
		violate("C14/crash", "panic in library goroutine %s: %s", res.Crashes[0].G, res.Crashes[0].Value)
		return nontrivial
	}
	if res.CallerPanic != "" {
		violate("C14/crash", "panic in the calling goroutine during %s: %s", ob.phase, res.CallerPanic)
		return nontrivial
	}
	if res.Aborted == "budget" {
		violate("C14/no-termination-within-step-budget", "a goroutine exceeded %d delay points (phase: %s)", cfg.MaxYields, ob.phase)
		return nontrivial
	}
	if res.Hang != "" {
		where := "during-iteration"
		switch {
		case res.BodyDone:
			where = "goroutine-left-blocked"
		case ob.phase == "final Close" && ob.stopInvoked != 0:
			where = "in-close-after-" + stopName
		case ob.phase == "final Close":
			where = "in-close"
		case strings.HasPrefix(ob.phase, "stop invoked"):
			where = "in-" + stopName
		case ob.stopInvoked != 0:
			where = "after-" + stopName
		}
		violate("C14/deadlock-"+where, "all goroutines blocked for good (phase: %s); blocked: %v", ob.phase, res.Blocked)
		return nontrivial
	}

	// ---- the emitted sequence
	var emitted []int64
	pos := map[int64]int{}
	for _, c := range ob.nexts {
		if !c.ok {
			continue
		}
		if _, dup := pos[c.id]; dup {
			violate("C14/emitted-twice", "relation %d emitted twice; sequence so far %v", c.id, emitted)
		} else {
			pos[c.id] = len(emitted)
		}
		emitted = append(emitted, c.id)
		if _, ok := g.hist[c.id]; !ok {
			violate("C14/emitted-without-history", "relation %d has no history but was emitted", c.id)
		}
	}
	wanted := map[int64]bool{} // requested with history, and everything reachable from those
	for _, id := range g.req {
		if _, ok := g.hist[id]; ok {
			wanted[id] = true
			for c := range g.reach(id) {
				wanted[c] = true
			}
		}
	}
	for _, id := range emitted {
		if _, ok := g.hist[id]; ok && !wanted[id] {
			violate("C14/emitted-unrelated-relation", "relation %d is neither requested nor reachable from a requested relation", id)
		}
	}
	// once Next returned false it stays false
	sawFalse := false
	for _, c := range ob.nexts {
		if sawFalse && c.ok {
			violate("C14/next-true-after-false", "Next returned true after it had returned false; calls: %v", fmtNexts(ob.nexts))
		}
		if !c.ok {
			sawFalse = true
		}
	}
	if !sawFalse {
		violate("C14/iteration-did-not-end", "Next was still true after %d calls for %d relations", len(ob.nexts), g.n)
	}
	// after the stop returned, every Next invoked later is false (the one overlapping a concurrent stop may go either way)
	var endT int64
	for _, c := range ob.nexts {
		if !c.ok {
			endT = c.t1
			break
		}
	}
	stopped := ob.stopInvoked != 0 && (endT == 0 || ob.stopInvoked <= endT) // the stop came before the iteration had ended
	if ob.stopInvoked != 0 {
		for _, c := range ob.nexts {
			if c.t0 > ob.stopReturned && c.ok {
				violate("C14/next-true-after-"+stopName, "Next invoked after %s had returned still returned true (relation %d)", stopName, c.id)
			}
			if c.t0 < ob.stopInvoked && c.t1 > ob.stopInvoked {
				o.Probe("stop-overlapped-a-next-call")
			}
		}
	}
	// children before parents: holds for every emitted prefix of an acyclic graph
	if acyclic {
		for _, id := range emitted {
			if _, ok := g.hist[id]; !ok {
				continue
			}
			reach := g.reach(id)
			var rk []int64
			for c := range reach {
				rk = append(rk, c)
			}
			sort.Slice(rk, func(i, j int) bool { return rk[i] < rk[j] })
			for _, c := range rk {
				cp, ok := pos[c]
				if !ok {
					violate("C14/parent-emitted-but-child-never", "relation %d was emitted but relation %d, reachable from it, never was (emitted %v)", id, c, emitted)
				} else if cp > pos[id] {
					violate("C14/child-after-parent", "relation %d, reachable from %d, was emitted after it (emitted %v)", c, id, emitted)
				}
			}
		}
	}
	// what the iteration must have delivered when nothing stopped it
	natural := !stopped && !ds.fired && !ds.ctxEr
	switch {
	case natural:
		for _, id := range g.req {
			if _, ok := g.hist[id]; !ok {
				continue
			}
			if _, ok := pos[id]; !ok {
				kind := "acyclic"
				if !acyclic {
					kind = "cyclic"
				}
				violate("C14/requested-relation-not-emitted/"+kind+"-graph", "requested relation %d has a history but was not emitted (emitted %v)", id, emitted)
			}
		}
		if ob.errAtEnd != nil {
			violate("C14/error-after-clean-end", "Err() = %v after a complete iteration without faults", ob.errAtEnd)
		}
		if len(res.Live) != 0 || len(ob.liveAtClose) != 0 {
			violate("C14/goroutine-alive-after-close", "library goroutines alive after Close returned: %v", ob.liveAtClose)
		}
	case ds.fired && !stopped:
		if ob.errAtEnd != errInjected {
			violate("C14/datasource-error-not-reported", "the datasource failed on call %d with %q; after Next returned false Err() = %v", s.failAt, errInjected, ob.errAtEnd)
		}
		o.Probe("datasource-error-ended-iteration")
	}
	if ob.stopInvoked != 0 && !stopped {
		o.Probe("stopped-after-the-end")
	}
	if ob.stopInvoked != 0 {
		if ob.quietChecked && len(ob.liveQuiet) != 0 {
			violate("C14/goroutine-alive-after-cancel", "one simulated hour after cancel the producer goroutine is still alive: %v", ob.liveQuiet)
		}
		if !ob.closeDone {
			violate("C14/close-did-not-return-after-"+stopName, "phase %s", ob.phase)
		}
	}
	if ob.closeDone {
		if len(ob.liveAtClose) != 0 {
			violate("C14/goroutine-alive-after-close", "library goroutines alive after Close returned: %v", ob.liveAtClose)
		}
		if ob.nextAfter {
			violate("C14/next-true-after-close", "Next returned true after Close")
		}
	}

	// ---- probes
	if !acyclic {
		o.Probe("graph-with-cycle")
		for _, id := range g.ids {
			for _, c := range g.children(id) {
				if c == id {
					o.Probe("self-reference")
				}
			}
		}
	} else if edges > 0 {
		o.Probe("acyclic-graph-with-edges")
	}
	indeg := map[int64]int{}
	for _, id := range g.ids {
		for _, c := range g.children(id) {
			indeg[c]++
		}
	}
	for _, id := range g.ids {
		if indeg[id] > 1 {
			o.Probe("relation-with-several-parents")
			break
		}
	}
	seenReq := map[int64]bool{}
	for _, id := range g.req {
		if seenReq[id] {
			o.Probe("duplicate-request")
		}
		seenReq[id] = true
		if _, ok := g.hist[id]; !ok {
			o.Probe("requested-relation-without-history")
		}
	}
	for _, id := range g.ids {
		if len(g.hist[id]) > 1 {
			o.Probe("relation-with-several-versions")
			break
		}
	}
	if natural && !acyclic {
		o.Probe("cyclic-graph-iterated-to-the-end")
	}
	if stopped {
		switch {
		case len(emitted) == 0:
			o.Probe("stopped-before-first-relation")
		case len(emitted) < len(wanted):
			o.Probe("stopped-mid-iteration")
		default:
			o.Probe("stopped-with-everything-emitted")
		}
	}
	for _, id := range emitted {
		if !seenReq[id] {
			o.Probe("unrequested-child-emitted")
			break
		}
	}
	return nontrivial
}

func fmtNexts(cs []nextCall) string {
	var parts []string
	for _, c := range cs {
		if c.ok {
			parts = append(parts, fmt.Sprintf("r%d", c.id))
		} else {
			parts = append(parts, "false")
		}
	}
	return strings.Join(parts, " ")
}
