package annosim

import (
	"testing"

	"h/kit"
)

func TestWorker(t *testing.T) {
	kit.WorkerMain(t, "annosim", map[string]kit.RunFunc{
		"C11": runC11,
		"C12": runC12,
		"C13": runC13,
		"C14": runC14,
	})
}
