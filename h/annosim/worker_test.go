package annosim

import (
	"testing"

	"h/kit"
)

func TestWorker(t *testing.T) {
	kit.WorkerMain(t, "annosim", map[string]kit.RunFunc{
		"C12": runC12,
	})
}
