// Package kit is the part of the simulation harness shared by the three engines:
// the choice tape, the per-run outcome, the worker loop that executes a shard of run
// indices inside one OS process, the in-process shrinker and the replay-file format.
package kit

import (
	"encoding/json"
	"fmt"
	"hash/fnv"
	"os"
	"sort"
	"strings"
	"sync/atomic"
	"testing"
	"time"
)

// ---------------------------------------------------------------- PRNG

// Mix is splitmix64's output function.
func Mix(z uint64) uint64 {
	z += 0x9e3779b97f4a7c15
	z = (z ^ (z >> 30)) * 0xbf58476d1ce4e5b9
	z = (z ^ (z >> 27)) * 0x94d049bb133111eb
	return z ^ (z >> 31)
}

// HashStr hashes s into a seed.
func HashStr(seed uint64, s string) uint64 {
	h := seed ^ 0x9e3779b97f4a7c15
	for i := 0; i < len(s); i++ {
		h ^= uint64(s[i])
		h *= 0x100000001b3
	}
	return Mix(h)
}

// RunSeed derives the seed of run i of a property from VERIF_SEED.
func RunSeed(seed uint64, property string, i int) uint64 {
	return Mix(HashStr(seed, property) + uint64(i)*0x9e3779b97f4a7c15)
}

// ---------------------------------------------------------------- choice tape

// Tape is the workload choice tape: in search mode values come from a PRNG and are
// recorded; in replay mode they are read back; a tape that runs out yields 0, and 0 is
// always the simplest choice.
type Tape struct {
	Vals   []uint64
	pos    int
	state  uint64
	replay bool
}

// NewTape returns a recording tape.
func NewTape(seed uint64) *Tape { return &Tape{state: seed} }

// ReplayTape returns a tape that reads vals back.
func ReplayTape(vals []uint64) *Tape {
	return &Tape{Vals: append([]uint64(nil), vals...), replay: true}
}

// Used is the number of values consumed so far.
func (t *Tape) Used() int { return t.pos }

func (t *Tape) raw() uint64 {
	if t.replay {
		if t.pos < len(t.Vals) {
			v := t.Vals[t.pos]
			t.pos++
			return v
		}
		t.pos++
		return 0
	}
	t.state = Mix(t.state)
	t.Vals = append(t.Vals, 0)
	t.pos++
	return t.state
}

// Draw returns a value in [0,n). n<=1 returns 0 (and still consumes a tape cell).
func (t *Tape) Draw(n int) int {
	v := t.raw()
	if n <= 1 {
		if !t.replay {
			t.Vals[t.pos-1] = 0
		}
		return 0
	}
	r := v % uint64(n)
	if !t.replay {
		t.Vals[t.pos-1] = r // store the reduced value: shrinking by lowering is then monotone
	}
	return int(r)
}

// Range returns a value in [lo,hi].
func (t *Tape) Range(lo, hi int) int {
	if hi < lo {
		hi = lo
	}
	return lo + t.Draw(hi-lo+1)
}

// Bool is a fair coin; false is the simple choice.
func (t *Tape) Bool() bool { return t.Draw(2) == 1 }

// Chance is true with probability num/den; false is the simple choice.
func (t *Tape) Chance(num, den int) bool {
	// map the high values to true so that lowering a cell turns the event off
	return t.Draw(den) >= den-num
}

// Pick returns one of the options; the first is the simple choice.
func (t *Tape) Pick(opts ...int) int { return opts[t.Draw(len(opts))] }

// Int64 returns a value in [0,n) for large n.
func (t *Tape) Int64(n int64) int64 {
	if n <= 1 {
		t.Draw(1)
		return 0
	}
	v := t.raw()
	r := v % uint64(n)
	if !t.replay {
		t.Vals[t.pos-1] = r
	}
	return int64(r)
}

// ---------------------------------------------------------------- outcome of one run

// Violation is one oracle failure. Class identifies the kind of failure (used for
// shrinking and for known_findings.json); it must not contain run-specific numbers.
type Violation struct {
	Class  string `json:"class"`
	Detail string `json:"detail"`
}

// SchedCfg is the schedule half of a replay: goroutine delay streams are a function of
// (Seed, goroutine name); Flat/FlatG replace streams by unit delays (shrinker).
type SchedCfg struct {
	Seed  uint64   `json:"seed"`
	Flat  bool     `json:"flat,omitempty"`
	FlatG []string `json:"flat_goroutines,omitempty"`
}

// Outcome is what one run reports.
type Outcome struct {
	Violations []Violation
	Probes     map[string]int
	Faults     map[string]int
	Workload   uint64
	Scheds     []uint64 // interleaving hashes of the executions of this run
	States     []uint64 // state signatures seen
	NonTrivial int      // executions that hit the property's non-triviality probe
	Pairs      []uint64 // (workload, interleaving) hashes of non-trivial executions
	Evals      int      // executions in this run
	SimNanos   int64
	Yields     int64
	Scenario   interface{}
	Trace      []string
	Goroutines []string // names of the simulated goroutines of the violating execution (replay mode); the shrinker flattens them one by one
}

func (o *Outcome) Probe(name string) {
	if o.Probes == nil {
		o.Probes = map[string]int{}
	}
	o.Probes[name]++
}
func (o *Outcome) ProbeN(name string, n int) {
	if o.Probes == nil {
		o.Probes = map[string]int{}
	}
	o.Probes[name] += n
}
func (o *Outcome) Fault(name string) {
	if o.Faults == nil {
		o.Faults = map[string]int{}
	}
	o.Faults[name]++
}
func (o *Outcome) Violate(class, format string, a ...interface{}) {
	d := fmt.Sprintf(format, a...)
	if len(d) > 2000 {
		d = d[:2000] + "…"
	}
	o.Violations = append(o.Violations, Violation{Class: class, Detail: d})
}

// Run is the context handed to a property's run function.
type Run struct {
	Property string
	Tier     string
	Index    int
	Group    int // runs Index/Group*Group .. +Group-1 share one tape (one workload); Slice = Index % Group
	Slice    int
	Tape     *Tape
	Sched    SchedCfg
	Params   map[string]int64 // replay pins (e.g. one sub-case of an enumeration); nil in search mode
	Out      *Outcome
	Replay   bool
}

// Param returns the pinned value of a replay parameter.
func (r *Run) Param(name string) (int64, bool) {
	if r.Params == nil {
		return 0, false
	}
	v, ok := r.Params[name]
	return v, ok
}

// RunFunc executes one simulated run of a property.
type RunFunc func(t *testing.T, r *Run)

// ---------------------------------------------------------------- job / replay / aggregate files

// ReplayFile is the replay artefact written for every violation.
type ReplayFile struct {
	Property   string           `json:"property"`
	Engine     string           `json:"engine"`
	Seed       uint64           `json:"verif_seed"`
	Run        int              `json:"run"`
	Tape       []uint64         `json:"tape"` // nil: derive from (verif_seed, property, run)
	Params     map[string]int64 `json:"params,omitempty"`
	Sched      SchedCfg         `json:"sched"`
	Class      string           `json:"class"`
	Detail     string           `json:"detail"`
	Scenario   interface{}      `json:"scenario,omitempty"`
	Trace      []string         `json:"trace,omitempty"`
	ShrinkRuns int              `json:"shrink_reruns"`
	Note       string           `json:"note,omitempty"`
}

// Known is one entry of known_findings.json.
type Known struct {
	Status   string `json:"status"` // "known" | "fixed"
	Property string `json:"property"`
	Class    string `json:"class"`
	What     string `json:"what"`
	Commit   string `json:"commit,omitempty"`
}

// Job is what the driver hands a worker process.
type Job struct {
	Property string      `json:"property"`
	Engine   string      `json:"engine"`
	Tier     string      `json:"tier"`
	Seed     uint64      `json:"seed"`
	From     int         `json:"from"`
	To       int         `json:"to"`
	Out      string      `json:"out"`      // aggregate JSON
	ViolDir  string      `json:"viol_dir"` // replay candidates
	Known    []Known     `json:"known"`
	Replay   *ReplayFile `json:"replay,omitempty"`
	NoShrink bool        `json:"no_shrink,omitempty"`
	Group    int         `json:"group,omitempty"`     // >1: runs are (workload, slice) pairs, see Run.Group
	TraceOut string      `json:"trace_out,omitempty"` // determinism self-test: per-run digest lines
	MaxSecs  int         `json:"max_secs,omitempty"`
}

// Found is a violation as reported to the driver.
type Found struct {
	Run    int    `json:"run"`
	Class  string `json:"class"`
	Detail string `json:"detail"`
	File   string `json:"file"`
	Known  bool   `json:"known"`
}

// Agg is a worker's aggregate over its shard.
type Agg struct {
	Property   string           `json:"property"`
	Runs       int              `json:"runs"`
	LastRun    int              `json:"last_run"`
	Evals      int              `json:"evals"`
	NonTrivial int              `json:"nontrivial"`
	Workloads  []uint64         `json:"workloads"`
	Scheds     []uint64         `json:"scheds"`
	States     []uint64         `json:"states"`
	Pairs      []uint64         `json:"pairs"`
	Probes     map[string]int   `json:"probes"`
	Faults     map[string]int   `json:"faults"`
	SimNanos   int64            `json:"sim_nanos"`
	Yields     int64            `json:"yields"`
	Samples    []interface{}    `json:"samples"`
	Found      []Found          `json:"found"`
	KnownHits  map[string]int   `json:"known_hits"`
	WallS      float64          `json:"wall_s"`
	Partial    bool             `json:"partial,omitempty"` // the worker stopped before job.To (memory hygiene); the driver requeues the rest
	Replayed   *ReplayResult    `json:"replayed,omitempty"`
	Extra      map[string]int64 `json:"extra,omitempty"`
}

// ReplayResult is the outcome of a replay job.
type ReplayResult struct {
	Reproduced bool        `json:"reproduced"`
	Violations []Violation `json:"violations"`
	Digest     string      `json:"digest"`
	Scenario   interface{} `json:"scenario,omitempty"`
	Trace      []string    `json:"trace,omitempty"`
}

// ---------------------------------------------------------------- worker loop

// LeakedBubbles counts executions that ended with goroutines blocked for good (simu increments it).
// Such goroutines keep their memory (a 32 MiB buffer per PBF scanner) for the life of the process,
// so a worker hands the rest of its shard back to the driver after a few of them.
var LeakedBubbles int64

const maxLeakedBubbles = 6

func mustJSON(path string, v interface{}) {
	b, err := json.MarshalIndent(v, "", " ")
	if err != nil {
		panic(err)
	}
	if err := os.WriteFile(path, b, 0644); err != nil {
		panic(err)
	}
}

func uniq(a []uint64) []uint64 {
	sort.Slice(a, func(i, j int) bool { return a[i] < a[j] })
	out := a[:0]
	for i, v := range a {
		if i == 0 || v != a[i-1] {
			out = append(out, v)
		}
	}
	return out
}

// Digest is a stable digest of everything observable about a run (determinism self-test).
func Digest(o *Outcome) string {
	h := fnv.New64a()
	for _, v := range o.Violations {
		fmt.Fprintf(h, "V %s %s\n", v.Class, v.Detail)
	}
	fmt.Fprintf(h, "W %x E %d N %d T %d Y %d\n", o.Workload, o.Evals, o.NonTrivial, o.SimNanos, o.Yields)
	for _, s := range o.Scheds {
		fmt.Fprintf(h, "S %x\n", s)
	}
	keys := make([]string, 0, len(o.Probes))
	for k := range o.Probes {
		keys = append(keys, k)
	}
	sort.Strings(keys)
	for _, k := range keys {
		fmt.Fprintf(h, "P %s %d\n", k, o.Probes[k])
	}
	return fmt.Sprintf("%016x", h.Sum64())
}

var curGroup = 1

func execute(t *testing.T, fn RunFunc, property, tier string, index int, tape *Tape, sched SchedCfg, params map[string]int64, replay bool) *Outcome {
	r := &Run{Property: property, Tier: tier, Index: index, Group: curGroup, Slice: index % curGroup, Tape: tape, Sched: sched, Params: params, Out: &Outcome{}, Replay: replay}
	fn(t, r)
	return r.Out
}

func hasClass(o *Outcome, class string) *Violation {
	for i := range o.Violations {
		if o.Violations[i].Class == class {
			return &o.Violations[i]
		}
	}
	return nil
}

// WorkerMain is the body of every engine's TestWorker.
func WorkerMain(t *testing.T, engine string, props map[string]RunFunc) {
	path := os.Getenv("VERIF_JOB")
	if path == "" {
		t.Skip("VERIF_JOB not set (this test binary is driven by bin/verif)")
	}
	b, err := os.ReadFile(path)
	if err != nil {
		t.Fatalf("job: %v", err)
	}
	var job Job
	if err := json.Unmarshal(b, &job); err != nil {
		t.Fatalf("job: %v", err)
	}
	if job.Group > 1 {
		curGroup = job.Group
	}
	fn := props[job.Property]
	if fn == nil {
		t.Fatalf("engine %s has no property %s", engine, job.Property)
	}
	start := time.Now()
	agg := &Agg{Property: job.Property, Probes: map[string]int{}, Faults: map[string]int{}, KnownHits: map[string]int{}, LastRun: -1}
	known := map[string]bool{}
	for _, k := range job.Known {
		if k.Status == "known" && k.Property == job.Property {
			known[k.Class] = true
		}
	}

	if job.Replay != nil {
		rf := job.Replay
		fmt.Printf("@RUN %d\n", rf.Run)
		tape := ReplayTape(rf.Tape)
		if rf.Tape == nil {
			tape = NewTape(RunSeed(rf.Seed, rf.Property, rf.Run/curGroup))
			rf.Sched = SchedCfg{Seed: RunSeed(rf.Seed, rf.Property+"/sched", rf.Run)}
		}
		o := execute(t, fn, job.Property, job.Tier, rf.Run, tape, rf.Sched, rf.Params, true)
		res := &ReplayResult{Violations: o.Violations, Digest: Digest(o), Scenario: o.Scenario, Trace: o.Trace}
		res.Reproduced = hasClass(o, rf.Class) != nil
		agg.Replayed = res
		agg.Runs = 1
		for _, v := range o.Violations {
			fmt.Printf("replay: violation class=%s detail=%s\n", v.Class, v.Detail)
		}
		if len(o.Trace) > 0 && os.Getenv("VERIF_SHOW_TRACE") != "" {
			fmt.Println(strings.Join(o.Trace, "\n"))
		}
		mustJSON(job.Out, agg)
		return
	}

	var traceF *os.File
	if job.TraceOut != "" {
		traceF, err = os.Create(job.TraceOut)
		if err != nil {
			t.Fatal(err)
		}
		defer traceF.Close()
	}

	seenClass := map[string]bool{}
	for i := job.From; i < job.To; i++ {
		if job.MaxSecs > 0 && time.Since(start) > time.Duration(job.MaxSecs)*time.Second {
			break
		}
		if atomic.LoadInt64(&LeakedBubbles) >= maxLeakedBubbles {
			agg.Partial = true
			break
		}
		fmt.Printf("@RUN %d\n", i)
		tape := NewTape(RunSeed(job.Seed, job.Property, i/curGroup))
		sched := SchedCfg{Seed: RunSeed(job.Seed, job.Property+"/sched", i)}
		o := execute(t, fn, job.Property, job.Tier, i, tape, sched, nil, false)
		agg.Runs++
		agg.LastRun = i
		agg.Evals += o.Evals
		agg.NonTrivial += o.NonTrivial
		agg.Workloads = append(agg.Workloads, o.Workload)
		agg.Scheds = append(agg.Scheds, o.Scheds...)
		agg.States = append(agg.States, o.States...)
		agg.Pairs = append(agg.Pairs, o.Pairs...)
		for k, v := range o.Probes {
			agg.Probes[k] += v
		}
		for k, v := range o.Faults {
			agg.Faults[k] += v
		}
		agg.SimNanos += o.SimNanos
		agg.Yields += o.Yields
		if len(agg.Samples) < 3 && o.Scenario != nil && (o.NonTrivial > 0 || i == job.To-1) {
			agg.Samples = append(agg.Samples, o.Scenario)
		}
		if traceF != nil {
			fmt.Fprintf(traceF, "%d %s\n", i, Digest(o))
		}
		if len(agg.Scheds) > 1<<16 {
			agg.Scheds = uniq(agg.Scheds)
			agg.States = uniq(agg.States)
			agg.Pairs = uniq(agg.Pairs)
			agg.Workloads = uniq(agg.Workloads)
		}
		// violations: one report per class per shard, shrunk in-process
		for _, v := range o.Violations {
			if known[v.Class] {
				agg.KnownHits[v.Class]++
				if agg.KnownHits[v.Class] > 1 {
					continue
				}
			} else if seenClass[v.Class] {
				continue
			}
			seenClass[v.Class] = true
			rf := &ReplayFile{Property: job.Property, Engine: engine, Seed: job.Seed, Run: i,
				Tape: append([]uint64(nil), tape.Vals...), Sched: sched, Class: v.Class, Detail: v.Detail, Scenario: o.Scenario, Trace: o.Trace}
			if p, ok := SubcaseParams(v.Detail); ok {
				rf.Params = p
			}
			if !job.NoShrink && !known[v.Class] {
				Shrink(t, fn, job, rf)
			}
			file := fmt.Sprintf("%s/%s-%d-%d-%s.json", job.ViolDir, job.Property, job.Seed, i, classSlug(v.Class))
			mustJSON(file, rf)
			agg.Found = append(agg.Found, Found{Run: i, Class: v.Class, Detail: rf.Detail, File: file, Known: known[v.Class]})
		}
	}
	agg.Scheds = uniq(agg.Scheds)
	agg.States = uniq(agg.States)
	agg.Pairs = uniq(agg.Pairs)
	agg.Workloads = uniq(agg.Workloads)
	agg.WallS = time.Since(start).Seconds()
	mustJSON(job.Out, agg)
}

func classSlug(c string) string {
	var sb strings.Builder
	for _, r := range c {
		switch {
		case r >= 'a' && r <= 'z', r >= 'A' && r <= 'Z', r >= '0' && r <= '9', r == '-':
			sb.WriteRune(r)
		default:
			sb.WriteByte('_')
		}
	}
	s := sb.String()
	if len(s) > 80 {
		s = s[:80]
	}
	return s
}

// SubcaseParams extracts "[[k=v k=v]]" pins a run function may put at the start of a
// violation detail to identify the failing sub-case of an enumeration.
func SubcaseParams(detail string) (map[string]int64, bool) {
	if !strings.HasPrefix(detail, "[[") {
		return nil, false
	}
	end := strings.Index(detail, "]]")
	if end < 0 {
		return nil, false
	}
	out := map[string]int64{}
	for _, f := range strings.Fields(detail[2:end]) {
		kv := strings.SplitN(f, "=", 2)
		if len(kv) != 2 {
			continue
		}
		var v int64
		if _, err := fmt.Sscan(kv[1], &v); err == nil {
			out[kv[0]] = v
		}
	}
	return out, len(out) > 0
}

// ---------------------------------------------------------------- shrinker

// Shrink minimises rf in place: it re-runs the simulator on candidate tapes/schedules and
// keeps a candidate only if a violation of the same class persists.
func Shrink(t *testing.T, fn RunFunc, job Job, rf *ReplayFile) {
	deadline := time.Now().Add(45 * time.Second)
	budget := 300
	reruns := 0
	leaked0 := atomic.LoadInt64(&LeakedBubbles)
	var names []string
	try := func(tape []uint64, sched SchedCfg) bool {
		// every re-run of a hanging scenario leaves goroutines (and their buffers) behind: cap those
		if reruns >= budget || time.Now().After(deadline) || atomic.LoadInt64(&LeakedBubbles)-leaked0 >= 10 {
			return false
		}
		reruns++
		o := execute(t, fn, job.Property, job.Tier, rf.Run, ReplayTape(tape), sched, rf.Params, true)
		if v := hasClass(o, rf.Class); v != nil {
			rf.Detail = v.Detail
			rf.Scenario = o.Scenario
			rf.Trace = o.Trace
			names = o.Goroutines
			return true
		}
		return false
	}
	tape := append([]uint64(nil), rf.Tape...)
	sched := rf.Sched
	origTape, origSched := append([]uint64(nil), rf.Tape...), rf.Sched
	// the pinned sub-case must reproduce on its own before anything is shrunk
	if !try(tape, sched) {
		rf.Note = "in-process re-run of the recorded tape did not reproduce the class; not shrunk"
		rf.ShrinkRuns = reruns
		return
	}
	// 1. schedule: all unit delays
	if !sched.Flat {
		c := sched
		c.Flat = true
		if try(tape, c) {
			sched = c
		}
	}
	// 1b. if the violation needs some non-trivial delays: replace the delay stream of one goroutine at a time by unit delays
	if !sched.Flat {
		for _, n := range append([]string(nil), names...) {
			c := sched
			c.FlatG = append(append([]string(nil), sched.FlatG...), n)
			if try(tape, c) {
				sched = c
			}
		}
	}
	// 2. tape: truncate, delete chunks, zero, halve
	for n := len(tape) / 2; n >= 1; n /= 2 {
		for len(tape) > n {
			c := append([]uint64(nil), tape[:len(tape)-n]...)
			if try(c, sched) {
				tape = c
			} else {
				break
			}
		}
	}
	for chunk := 8; chunk >= 1; chunk /= 2 {
		for i := 0; i+chunk <= len(tape); {
			c := append(append([]uint64(nil), tape[:i]...), tape[i+chunk:]...)
			if try(c, sched) {
				tape = c
			} else {
				i += chunk
			}
			if reruns >= budget {
				break
			}
		}
	}
	for i := 0; i < len(tape) && reruns < budget; i++ {
		if tape[i] == 0 {
			continue
		}
		c := append([]uint64(nil), tape...)
		c[i] = 0
		if try(c, sched) {
			tape = c
			continue
		}
		c[i] = tape[i] / 2
		if c[i] != tape[i] && try(c, sched) {
			tape = c
		}
	}
	for len(tape) > 0 && tape[len(tape)-1] == 0 {
		tape = tape[:len(tape)-1]
	}
	rf.Tape = tape
	rf.Sched = sched
	// final state must correspond to the stored tape
	o := execute(t, fn, job.Property, job.Tier, rf.Run, ReplayTape(tape), sched, rf.Params, true)
	if v := hasClass(o, rf.Class); v != nil {
		rf.Detail = v.Detail
		rf.Scenario = o.Scenario
		rf.Trace = o.Trace
	} else {
		rf.Tape, rf.Sched = origTape, origSched
		rf.Note = "shrunk tape did not re-run identically; original tape kept"
	}
	rf.ShrinkRuns = reruns
}
