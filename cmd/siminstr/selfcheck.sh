#!/bin/bash
# Rewrites a package full of awkward constructs and checks that it still builds and prints the same result
# (simrt in pass-through mode). usage: cmd/siminstr/selfcheck.sh
set -e
export GOFLAGS=-mod=mod GOPROXY=off GOSUMDB=off GOTOOLCHAIN=local
d=$(mktemp -d); trap 'rm -rf $d' EXIT
cp -r /verif/cmd/siminstr/testdata/mod $d/a; cp -r /verif/cmd/siminstr/testdata/mod $d/b
(cd $d/a && go run . > $d/a.out)
/verif/bin/siminstr -dir $d/b -simrt /verif/simrt -report $d/r.json
(cd $d/b && go vet ./... && go run . > $d/b.out)
cp -r /verif/cmd/siminstr/testdata/simtest $d/s
(cd $d/s && WANT="$(cat $d/a.out)" go1.26.8 test -count=1 -race . > $d/s.out 2>&1) || { cat $d/s.out; exit 1; }
cmp $d/a.out $d/b.out && echo "siminstr selfcheck: ok, also under 40 seeded schedules x 2 with -race ($(python3 -c "import json;d=json.load(open('$d/r.json'));print(d['sites_by_kind'], 'uninstrumented:', d['uninstrumented_sites'])"))"
