// Command siminstr rewrites a scratch copy of github.com/paulmach/osm so that every
// goroutine start, channel operation, select, WaitGroup wait and map iteration in
// non-test library code goes through the simulation runtime simrt (DESIGN.md 3.1,
// rewrites T1-T4).  It is driven by go/types, not by line numbers, so code added by a
// change to the repository is instrumented like the existing code.
//
// usage: siminstr -dir <copy of the repository> -simrt <dir with simrt sources> [-report out.json]
//
// Edits are spliced into the source text (the rest of every file is byte-identical and
// line numbers do not move).
package main

import (
	"encoding/json"
	"flag"
	"fmt"
	"go/ast"
	"go/build"
	"go/importer"
	"go/parser"
	"go/token"
	"go/types"
	"io/ioutil"
	"os"
	"path/filepath"
	"sort"
	"strings"
)

type edit struct {
	start, end int
	text       string
	seq        int
}

type report struct {
	Module        string         `json:"module"`
	Packages      []string       `json:"packages"`
	Sites         map[string]int `json:"sites_by_kind"`
	SiteList      []string       `json:"sites"`
	Uninstrumentd []string       `json:"uninstrumented_sites"`
	Files         []string       `json:"files_rewritten"`
}

var rep = report{Sites: map[string]int{}}

// rewritten files are written only after every package has been type-checked, because the
// source importer reads the packages it imports from disk
var pending = map[string][]byte{}

func fatal(f string, a ...interface{}) {
	fmt.Fprintf(os.Stderr, "siminstr: "+f+"\n", a...)
	os.Exit(2)
}

func main() {
	dir := flag.String("dir", "", "root of the copy to rewrite")
	simrtDir := flag.String("simrt", "", "directory holding simrt's sources")
	reportPath := flag.String("report", "", "where to write the JSON report")
	flag.Parse()
	if *dir == "" || *simrtDir == "" {
		fatal("need -dir and -simrt")
	}
	root, err := filepath.Abs(*dir)
	if err != nil {
		fatal("%v", err)
	}
	if abs, err := filepath.Abs(*simrtDir); err == nil {
		*simrtDir = abs
	}
	mod := modulePath(filepath.Join(root, "go.mod"))
	rep.Module = mod
	if err := os.Chdir(root); err != nil {
		fatal("%v", err)
	}

	var pkgDirs []string
	filepath.Walk(root, func(p string, fi os.FileInfo, err error) error {
		if err != nil {
			return nil
		}
		if fi.IsDir() {
			n := fi.Name()
			if p != root && (strings.HasPrefix(n, ".") || strings.HasPrefix(n, "_") || n == "testdata" || n == "simrt" || n == "vendor") {
				return filepath.SkipDir
			}
			pkgDirs = append(pkgDirs, p)
		}
		return nil
	})

	fset := token.NewFileSet()
	imp := importer.ForCompiler(fset, "source", nil)
	for _, d := range pkgDirs {
		instrumentDir(fset, imp, root, mod, d)
	}

	for p, b := range pending {
		if err := ioutil.WriteFile(p, b, 0644); err != nil {
			fatal("%v", err)
		}
	}

	// copy simrt in
	dst := filepath.Join(root, "simrt")
	os.MkdirAll(dst, 0755)
	ents, err := ioutil.ReadDir(*simrtDir)
	if err != nil {
		fatal("%v", err)
	}
	for _, e := range ents {
		if strings.HasSuffix(e.Name(), ".go") && !strings.HasSuffix(e.Name(), "_test.go") {
			b, err := ioutil.ReadFile(filepath.Join(*simrtDir, e.Name()))
			if err != nil {
				fatal("%v", err)
			}
			if err := ioutil.WriteFile(filepath.Join(dst, e.Name()), b, 0644); err != nil {
				fatal("%v", err)
			}
		}
	}

	sort.Strings(rep.SiteList)
	sort.Strings(rep.Uninstrumentd)
	sort.Strings(rep.Files)
	if *reportPath != "" {
		b, _ := json.MarshalIndent(rep, "", " ")
		if err := ioutil.WriteFile(*reportPath, b, 0644); err != nil {
			fatal("%v", err)
		}
	}
}

func modulePath(gomod string) string {
	b, err := ioutil.ReadFile(gomod)
	if err != nil {
		fatal("%v", err)
	}
	for _, l := range strings.Split(string(b), "\n") {
		l = strings.TrimSpace(l)
		if strings.HasPrefix(l, "module") {
			return strings.Trim(strings.TrimSpace(strings.TrimPrefix(l, "module")), "\"")
		}
	}
	fatal("no module line in %s", gomod)
	return ""
}

type fileCtx struct {
	fset     *token.FileSet
	file     *ast.File
	tf       *token.File
	src      []byte
	rel      string
	info     *types.Info
	pkg      *types.Package
	edits    []edit
	seq      int
	tmp      int
	skip     map[ast.Node]bool
	lockDone map[ast.Node]bool
	covered  map[ast.Node]bool
	imports  map[string]string // import path -> local name
}

func instrumentDir(fset *token.FileSet, imp types.Importer, root, mod, dir string) {
	ents, err := ioutil.ReadDir(dir)
	if err != nil {
		fatal("%v", err)
	}
	var files []*ast.File
	var names []string
	srcs := map[*ast.File][]byte{}
	for _, e := range ents {
		n := e.Name()
		if e.IsDir() || !strings.HasSuffix(n, ".go") || strings.HasSuffix(n, "_test.go") {
			continue
		}
		ok, err := build.Default.MatchFile(dir, n)
		if err != nil || !ok {
			continue
		}
		p := filepath.Join(dir, n)
		src, err := ioutil.ReadFile(p)
		if err != nil {
			fatal("%v", err)
		}
		f, err := parser.ParseFile(fset, p, src, parser.ParseComments)
		if err != nil {
			fatal("parse %s: %v", p, err)
		}
		files = append(files, f)
		names = append(names, p)
		srcs[f] = src
	}
	if len(files) == 0 {
		return
	}
	relDir, _ := filepath.Rel(root, dir)
	pkgPath := mod
	if relDir != "." {
		pkgPath = mod + "/" + filepath.ToSlash(relDir)
	}
	info := &types.Info{
		Types:      map[ast.Expr]types.TypeAndValue{},
		Uses:       map[*ast.Ident]types.Object{},
		Defs:       map[*ast.Ident]types.Object{},
		Selections: map[*ast.SelectorExpr]*types.Selection{},
	}
	conf := types.Config{Importer: imp, Error: func(err error) {}}
	pkg, err := conf.Check(pkgPath, fset, files, info)
	if err != nil {
		// a type error means the build of the copy will fail too; report as infrastructure trouble
		fatal("type-check %s: %v", pkgPath, err)
	}
	rep.Packages = append(rep.Packages, pkgPath)
	for i, f := range files {
		if isGenerated(f) {
			continue
		}
		rel, _ := filepath.Rel(root, names[i])
		fc := &fileCtx{fset: fset, file: f, tf: fset.File(f.Pos()), src: srcs[f], rel: filepath.ToSlash(rel), info: info, pkg: pkg,
			skip: map[ast.Node]bool{}, lockDone: map[ast.Node]bool{}, covered: map[ast.Node]bool{}, imports: map[string]string{}}
		for _, is := range f.Imports {
			p := strings.Trim(is.Path.Value, "\"")
			name := ""
			if is.Name != nil {
				name = is.Name.Name
			}
			fc.imports[p] = name
		}
		fc.run(mod)
		if len(fc.edits) > 0 {
			pending[names[i]] = fc.apply()
			rep.Files = append(rep.Files, fc.rel)
		}
	}
}

func isGenerated(f *ast.File) bool {
	for _, cg := range f.Comments {
		if cg.Pos() > f.Package {
			break
		}
		if strings.Contains(cg.Text(), "Code generated") {
			return true
		}
	}
	return false
}

func (fc *fileCtx) off(p token.Pos) int { return fc.tf.Offset(p) }
func (fc *fileCtx) text(n ast.Node) string {
	return string(fc.src[fc.off(n.Pos()):fc.off(n.End())])
}
func (fc *fileCtx) site(n ast.Node) string {
	return fmt.Sprintf("%s:%d", fc.rel, fc.fset.Position(n.Pos()).Line)
}
func (fc *fileCtx) insert(at token.Pos, text string) {
	fc.seq++
	o := fc.off(at)
	fc.edits = append(fc.edits, edit{o, o, text, fc.seq})
}
func (fc *fileCtx) replace(from, to token.Pos, text string) {
	fc.seq++
	fc.edits = append(fc.edits, edit{fc.off(from), fc.off(to), text, fc.seq})
}
func (fc *fileCtx) note(kind, site string) {
	rep.Sites[kind]++
	rep.SiteList = append(rep.SiteList, kind+" "+site)
}

func (fc *fileCtx) apply() []byte {
	es := fc.edits
	sort.SliceStable(es, func(i, j int) bool {
		if es[i].start != es[j].start {
			return es[i].start < es[j].start
		}
		// at one offset, insertions go in front of a replacement that starts there
		ri, rj := es[i].end > es[i].start, es[j].end > es[j].start
		if ri != rj {
			return !ri
		}
		return es[i].seq < es[j].seq
	})
	var out []byte
	pos := 0
	for _, e := range es {
		if e.start < pos {
			fatal("%s: overlapping edits at offset %d", fc.rel, e.start)
		}
		out = append(out, fc.src[pos:e.start]...)
		out = append(out, e.text...)
		pos = e.end
	}
	out = append(out, fc.src[pos:]...)
	return out
}

func (fc *fileCtx) run(mod string) {
	ast.Inspect(fc.file, func(n ast.Node) bool {
		if n == nil {
			return true
		}
		if fc.skip[n] {
			return false
		}
		switch x := n.(type) {
		case *ast.BlockStmt:
			for _, s := range x.List {
				fc.shallow(s)
			}
		case *ast.CaseClause:
			for _, s := range x.Body {
				fc.shallow(s)
			}
		case *ast.CommClause:
			for _, s := range x.Body {
				fc.shallow(s)
			}
		}
		return true
	})
	// audit: every concurrency construct must have been covered
	ast.Inspect(fc.file, func(n ast.Node) bool {
		if n == nil {
			return true
		}
		switch x := n.(type) {
		case *ast.GoStmt, *ast.SelectStmt, *ast.SendStmt:
			if !fc.covered[n] {
				rep.Uninstrumentd = append(rep.Uninstrumentd, fmt.Sprintf("%T %s", n, fc.site(n)))
			}
		case *ast.UnaryExpr:
			if x.Op == token.ARROW && !fc.covered[n] {
				rep.Uninstrumentd = append(rep.Uninstrumentd, "recv "+fc.site(n))
			}
		case *ast.RangeStmt:
			if t := fc.info.TypeOf(x.X); t != nil {
				switch t.Underlying().(type) {
				case *types.Map, *types.Chan:
					if !fc.covered[n] {
						rep.Uninstrumentd = append(rep.Uninstrumentd, "range "+fc.site(n))
					}
				}
			}
		}
		return true
	})
	if len(fc.edits) > 0 {
		fc.insert(fc.file.Name.End(), "; import simrt \""+mod+"/simrt\"")
	}
}

// ops found in the expression-level part of a statement
type ops struct {
	any      bool
	chanText string // text of the first channel operand that is safe to evaluate twice, "" otherwise
	nodes    []ast.Node
	lockOnly bool
}

// scan inspects n without entering nested blocks or function literals.
func (fc *fileCtx) scan(n ast.Node, o *ops) {
	if n == nil {
		return
	}
	ast.Inspect(n, func(m ast.Node) bool {
		switch x := m.(type) {
		case *ast.FuncLit:
			return false
		case *ast.BlockStmt:
			return false
		case *ast.SendStmt:
			o.hit(fc, x, x.Chan, false)
		case *ast.UnaryExpr:
			if x.Op == token.ARROW {
				o.hit(fc, x, x.X, false)
			}
		case *ast.CallExpr:
			if id, ok := x.Fun.(*ast.Ident); ok && id.Name == "close" && len(x.Args) == 1 {
				if _, isB := fc.info.Uses[id].(*types.Builtin); isB {
					o.hit(fc, x, x.Args[0], false)
				}
			}
			if sel, ok := x.Fun.(*ast.SelectorExpr); ok {
				if s := fc.info.Selections[sel]; s != nil {
					rt := s.Recv().String()
					rt = strings.TrimPrefix(rt, "*")
					switch {
					case sel.Sel.Name == "Wait" && (rt == "sync.WaitGroup" || rt == "sync.Cond"):
						o.hit(fc, x, nil, false)
					case sel.Sel.Name == "Lock" && rt == "sync.Locker" && pure(sel.X):
						// e.g. cond.L.Lock(): the Locker is almost always a *sync.Mutex; simrt.LockLocker uses TryLock when it has one
						o.hit(fc, x, nil, true)
						if !fc.lockDone[x] {
							fc.lockDone[x] = true
							fc.replace(x.Pos(), x.End(), fmt.Sprintf("simrt.LockLocker(%q, %s)", fc.site(x), fc.text(sel.X)))
							fc.note("lock", fc.site(x))
						}
					case (sel.Sel.Name == "Lock" || sel.Sel.Name == "RLock") && (rt == "sync.Mutex" || rt == "sync.RWMutex"):
						o.hit(fc, x, nil, true)
						// T5: a blocked sync.Mutex.Lock is not durably blocked for synctest, so a goroutine sleeping on the
						// fake clock while it holds the mutex would never wake. The acquisition becomes TryLock + delay point.
						if len(s.Index()) == 1 && pure(sel.X) && !fc.lockDone[x] {
							fc.lockDone[x] = true
							recv := fc.text(sel.X)
							if _, isPtr := fc.info.TypeOf(sel.X).(*types.Pointer); !isPtr {
								recv = "&" + recv
							}
							fn := "Lock"
							if sel.Sel.Name == "RLock" {
								fn = "RLock"
							}
							fc.replace(x.Pos(), x.End(), fmt.Sprintf("simrt.%s(%q, %s)", fn, fc.site(x), recv))
							fc.note("lock", fc.site(x))
						} else if !fc.lockDone[x] {
							fc.lockDone[x] = true
							rep.Uninstrumentd = append(rep.Uninstrumentd, "mutex-lock(embedded or complex receiver) "+fc.site(x))
						}
					}
				}
			}
		}
		return true
	})
}

func (o *ops) hit(fc *fileCtx, n ast.Node, ch ast.Expr, lock bool) {
	if !o.any {
		o.lockOnly = lock
	} else if !lock {
		o.lockOnly = false
	}
	o.any = true
	o.nodes = append(o.nodes, n)
	if o.chanText == "" && ch != nil && pure(ch) {
		o.chanText = fc.text(ch)
	}
}

// pure reports whether e can be evaluated a second time without side effects.
func pure(e ast.Expr) bool {
	switch x := e.(type) {
	case *ast.Ident:
		return true
	case *ast.BasicLit:
		return true
	case *ast.SelectorExpr:
		return pure(x.X)
	case *ast.ParenExpr:
		return pure(x.X)
	case *ast.IndexExpr:
		return pure(x.X) && pure(x.Index)
	case *ast.StarExpr:
		return pure(x.X)
	}
	return false
}

func (fc *fileCtx) yieldCall(site, ch string) string {
	if ch != "" {
		return fmt.Sprintf("simrt.YieldChan(%q, %s)", site, ch)
	}
	return fmt.Sprintf("simrt.Yield(%q)", site)
}

func (fc *fileCtx) shallow(s ast.Stmt) {
	anchor := s.Pos()
	end := s.End()
	core := s
	for {
		l, ok := core.(*ast.LabeledStmt)
		if !ok {
			break
		}
		core = l.Stmt
	}
	site := fc.site(core)
	switch x := core.(type) {
	case *ast.GoStmt:
		fc.rewriteGo(x, anchor)
		return
	case *ast.SelectStmt:
		fc.rewriteSelect(x, anchor)
		return
	case *ast.DeferStmt:
		if id, ok := x.Call.Fun.(*ast.Ident); ok && id.Name == "close" && len(x.Call.Args) == 1 {
			if _, isB := fc.info.Uses[id].(*types.Builtin); isB {
				ch := fc.text(x.Call.Args[0])
				fc.replace(x.Pos(), x.End(), fmt.Sprintf("{ _simc := %s; defer func() { simrt.YieldChan(%q, _simc); close(_simc); simrt.Yield(%q) }() }", ch, site, site+":after"))
				fc.skip[x] = true
				fc.note("defer-close", site)
				return
			}
		}
		var o ops
		for _, a := range x.Call.Args {
			fc.scan(a, &o)
		}
		if _, isLit := x.Call.Fun.(*ast.FuncLit); !isLit {
			fc.scan(x.Call.Fun, &o)
		}
		if o.any {
			fc.insert(anchor, fc.yieldCall(site, o.chanText)+"; ")
			fc.cover(o)
			fc.note("yield", site)
		}
		return
	case *ast.RangeStmt:
		t := fc.info.TypeOf(x.X)
		if t != nil {
			switch u := t.Underlying().(type) {
			case *types.Map:
				fc.rewriteMapRange(x, u, anchor)
				return
			case *types.Chan:
				ch := ""
				if pure(x.X) {
					ch = fc.text(x.X)
				}
				fc.insert(anchor, fc.yieldCall(site, ch)+"; ")
				fc.insert(x.Body.Lbrace+1, " "+fc.yieldCall(site+":body", "")+";")
				fc.insert(end, "; "+fc.yieldCall(site+":after", ""))
				fc.covered[x] = true
				fc.note("range-chan", site)
				return
			}
		}
		var o ops
		fc.scan(x.X, &o)
		if o.any {
			fc.insert(anchor, fc.yieldCall(site, o.chanText)+"; ")
			fc.insert(x.Body.Lbrace+1, " "+fc.yieldCall(site+":body", "")+";")
			fc.cover(o)
			fc.note("yield", site)
		}
		return
	case *ast.IfStmt:
		var o ops
		fc.scan(x.Init, &o)
		fc.scan(x.Cond, &o)
		if o.any {
			fc.insert(anchor, fc.yieldCall(site, o.chanText)+"; ")
			if !o.lockOnly {
				fc.insert(x.Body.Lbrace+1, " "+fc.yieldCall(site+":after", "")+";")
				if eb, ok := x.Else.(*ast.BlockStmt); ok {
					fc.insert(eb.Lbrace+1, " "+fc.yieldCall(site+":after", "")+";")
				} else if x.Else == nil {
					fc.insert(end, "; "+fc.yieldCall(site+":after", ""))
				}
			}
			fc.cover(o)
			fc.note("yield", site)
		}
		return
	case *ast.ForStmt:
		var o ops
		fc.scan(x.Init, &o)
		fc.scan(x.Cond, &o)
		fc.scan(x.Post, &o)
		if o.any {
			fc.insert(anchor, fc.yieldCall(site, o.chanText)+"; ")
			if !o.lockOnly {
				fc.insert(x.Body.Lbrace+1, " "+fc.yieldCall(site+":body", "")+";")
				if x.Cond != nil {
					fc.insert(end, "; "+fc.yieldCall(site+":after", ""))
				}
			}
			fc.cover(o)
			fc.note("yield", site)
		}
		return
	case *ast.SwitchStmt:
		var o ops
		fc.scan(x.Init, &o)
		fc.scan(x.Tag, &o)
		fc.headerClauses(x.Body, o, anchor, site)
		return
	case *ast.TypeSwitchStmt:
		var o ops
		fc.scan(x.Init, &o)
		fc.scan(x.Assign, &o)
		fc.headerClauses(x.Body, o, anchor, site)
		return
	case *ast.BlockStmt, *ast.CommClause, *ast.CaseClause:
		return
	}
	// simple statement
	var o ops
	fc.scan(core, &o)
	if !o.any {
		return
	}
	fc.insert(anchor, fc.yieldCall(site, o.chanText)+"; ")
	post := !o.lockOnly
	switch y := core.(type) {
	case *ast.ReturnStmt, *ast.BranchStmt:
		post = false
	case *ast.ExprStmt:
		if c, ok := y.X.(*ast.CallExpr); ok {
			if id, ok := c.Fun.(*ast.Ident); ok && id.Name == "panic" {
				post = false
			}
		}
	}
	if post {
		fc.insert(end, "; "+fc.yieldCall(site+":after", ""))
	}
	fc.cover(o)
	fc.note("yield", site)
}

func (fc *fileCtx) cover(o ops) {
	for _, n := range o.nodes {
		fc.covered[n] = true
	}
}

func (fc *fileCtx) headerClauses(body *ast.BlockStmt, o ops, anchor token.Pos, site string) {
	if !o.any {
		return
	}
	fc.insert(anchor, fc.yieldCall(site, o.chanText)+"; ")
	if !o.lockOnly {
		for _, c := range body.List {
			if cc, ok := c.(*ast.CaseClause); ok {
				fc.insert(cc.Colon+1, " "+fc.yieldCall(site+":after", "")+";")
			}
		}
	}
	fc.cover(o)
	fc.note("yield", site)
}

// T1
func (fc *fileCtx) rewriteGo(gs *ast.GoStmt, anchor token.Pos) {
	site := fc.site(gs)
	call := gs.Call
	var pre, args []string
	for i, a := range call.Args {
		name := fmt.Sprintf("_sima%d", i)
		pre = append(pre, fmt.Sprintf("%s := %s; ", name, fc.text(a)))
		if i == len(call.Args)-1 && call.Ellipsis.IsValid() {
			name += "..."
		}
		args = append(args, name)
	}
	// a yield before the go statement when its arguments touch channels
	var o ops
	for _, a := range call.Args {
		fc.scan(a, &o)
	}
	if o.any {
		fc.insert(anchor, fc.yieldCall(site, o.chanText)+"; ")
		fc.cover(o)
	}
	fc.covered[gs] = true
	fc.note("go", site)
	if lit, ok := call.Fun.(*ast.FuncLit); ok {
		fc.replace(gs.Pos(), lit.Pos(), fmt.Sprintf("{ %ssimrt.Go(%q, func() { ", strings.Join(pre, ""), site))
		fc.replace(lit.End(), gs.End(), fmt.Sprintf("(%s) }) }", strings.Join(args, ", ")))
		for _, a := range call.Args {
			fc.skip[a] = true
		}
		return
	}
	fun := fc.text(call.Fun)
	tv := fc.info.Types[call.Fun]
	if tv.IsBuiltin() || tv.IsType() {
		fc.replace(gs.Pos(), gs.End(), fmt.Sprintf("{ %ssimrt.Go(%q, func() { %s(%s) }) }", strings.Join(pre, ""), site, fun, strings.Join(args, ", ")))
	} else {
		fc.replace(gs.Pos(), gs.End(), fmt.Sprintf("{ _simf := %s; %ssimrt.Go(%q, func() { _simf(%s) }) }", fun, strings.Join(pre, ""), site, strings.Join(args, ", ")))
	}
	fc.skip[gs] = true
}

func unparen(e ast.Expr) ast.Expr {
	for {
		p, ok := e.(*ast.ParenExpr)
		if !ok {
			return e
		}
		e = p.X
	}
}

// T3
func (fc *fileCtx) rewriteSelect(sel *ast.SelectStmt, anchor token.Pos) {
	site := fc.site(sel)
	hasDefault := false
	for _, c := range sel.Body.List {
		if c.(*ast.CommClause).Comm == nil {
			hasDefault = true
		}
	}
	markComm := func() {
		for _, c := range sel.Body.List {
			cc := c.(*ast.CommClause)
			if cc.Comm == nil {
				continue
			}
			ast.Inspect(cc.Comm, func(m ast.Node) bool {
				switch y := m.(type) {
				case *ast.FuncLit:
					return false
				case *ast.SendStmt:
					fc.covered[y] = true
				case *ast.UnaryExpr:
					if y.Op == token.ARROW {
						fc.covered[y] = true
					}
				}
				return true
			})
		}
	}
	if hasDefault || len(sel.Body.List) == 0 {
		// non-blocking poll (or select{}): the native statement stays; a delay point goes in front
		fc.insert(anchor, fc.yieldCall(site, "")+"; ")
		ncomm := len(sel.Body.List)
		if hasDefault {
			ncomm--
		}
		if ncomm >= 2 {
			rep.Uninstrumentd = append(rep.Uninstrumentd, "select-with-default-and-several-cases "+site)
		}
		fc.covered[sel] = true
		markComm()
		fc.note("select-default", site)
		return
	}
	var cases []string
	type hdr struct {
		cc   *ast.CommClause
		text string
	}
	var hdrs []hdr
	giveUp := ""
	for i, c := range sel.Body.List {
		cc := c.(*ast.CommClause)
		bind := ""
		switch comm := cc.Comm.(type) {
		case *ast.SendStmt:
			cases = append(cases, fmt.Sprintf("simrt.Send(%s, %s)", fc.text(comm.Chan), fc.text(comm.Value)))
		case *ast.ExprStmt:
			u, ok := unparen(comm.X).(*ast.UnaryExpr)
			if !ok || u.Op != token.ARROW {
				giveUp = "unexpected case shape"
				continue
			}
			cases = append(cases, fmt.Sprintf("simrt.Recv(%s)", fc.text(u.X)))
		case *ast.AssignStmt:
			u, ok := unparen(comm.Rhs[0]).(*ast.UnaryExpr)
			if !ok || u.Op != token.ARROW {
				giveUp = "unexpected case shape"
				continue
			}
			cases = append(cases, fmt.Sprintf("simrt.Recv(%s)", fc.text(u.X)))
			isBlank := func(e ast.Expr) bool { id, ok := e.(*ast.Ident); return ok && id.Name == "_" }
			if comm.Tok == token.DEFINE {
				if !isBlank(comm.Lhs[0]) {
					rt := fc.info.TypeOf(u)
					if tup, isTuple := rt.(*types.Tuple); isTuple && tup.Len() > 0 {
						rt = tup.At(0).Type() // v, ok := <-ch
					}
					ts, ok := fc.typeString(rt)
					if !ok {
						giveUp = "type of the received value cannot be named in this file"
						continue
					}
					v := fc.text(comm.Lhs[0])
					bind += fmt.Sprintf(" var %s %s; _sims.Into(&%s);", v, ts, v)
				}
				if len(comm.Lhs) == 2 && !isBlank(comm.Lhs[1]) {
					bind += fmt.Sprintf(" %s := _sims.OK;", fc.text(comm.Lhs[1]))
				}
			} else {
				if !isBlank(comm.Lhs[0]) {
					bind += fmt.Sprintf(" _sims.Into(&(%s));", fc.text(comm.Lhs[0]))
				}
				if len(comm.Lhs) == 2 && !isBlank(comm.Lhs[1]) {
					bind += fmt.Sprintf(" %s = _sims.OK;", fc.text(comm.Lhs[1]))
				}
			}
		default:
			giveUp = "unexpected case statement"
			continue
		}
		hdrs = append(hdrs, hdr{cc, fmt.Sprintf("case %d:%s", i, bind)})
	}
	if giveUp != "" {
		// leave the statement native (the Go runtime then chooses among ready cases); a delay point still goes in front
		fc.insert(anchor, fc.yieldCall(site, "")+"; ")
		rep.Uninstrumentd = append(rep.Uninstrumentd, "select("+giveUp+") "+site)
		fc.covered[sel] = true
		markComm()
		return
	}
	fc.replace(sel.Pos(), sel.Body.Lbrace+1, fmt.Sprintf("switch _sims := simrt.Select(%q, %s); _sims.I {", site, strings.Join(cases, ", ")))
	for _, h := range hdrs {
		fc.replace(h.cc.Pos(), h.cc.Colon+1, h.text)
	}
	fc.insert(sel.Body.Rbrace, "default: panic(\"simrt: unreachable\"); ")
	fc.covered[sel] = true
	markComm()
	fc.note("select", site)
}

func (fc *fileCtx) typeString(t types.Type) (string, bool) {
	if t == nil {
		return "", false
	}
	ok := true
	s := types.TypeString(t, func(p *types.Package) string {
		if p == fc.pkg {
			return ""
		}
		name, imported := fc.imports[p.Path()]
		if !imported {
			ok = false
			return p.Name()
		}
		if name == "" {
			return p.Name()
		}
		if name == "." {
			return ""
		}
		if name == "_" {
			ok = false
		}
		return name
	})
	return s, ok
}

// T4
func (fc *fileCtx) rewriteMapRange(rs *ast.RangeStmt, mt *types.Map, anchor token.Pos) {
	site := fc.site(rs)
	kt, ok := fc.typeString(mt.Key())
	if !ok {
		rep.Uninstrumentd = append(rep.Uninstrumentd, "map-range(key type not nameable) "+site)
		fc.covered[rs] = true
		return
	}
	fc.tmp++
	mv := fmt.Sprintf("_simm%d", fc.tmp)
	fc.insert(anchor, fmt.Sprintf("%s := %s; ", mv, fc.text(rs.X)))
	isBlank := func(e ast.Expr) bool {
		if e == nil {
			return true
		}
		id, ok := e.(*ast.Ident)
		return ok && id.Name == "_"
	}
	tok := ":="
	if rs.Tok == token.ASSIGN {
		tok = "="
	}
	body := ""
	needV := !isBlank(rs.Value)
	if needV {
		body += fmt.Sprintf(" _simv, _simok := %s[_simk]; if !_simok { continue };", mv)
	} else {
		body += fmt.Sprintf(" if _, _simok := %s[_simk]; !_simok { continue };", mv)
	}
	switch {
	case !isBlank(rs.Key) && needV:
		body += fmt.Sprintf(" %s, %s %s _simk, _simv;", fc.text(rs.Key), fc.text(rs.Value), tok)
	case !isBlank(rs.Key):
		body += fmt.Sprintf(" %s %s _simk;", fc.text(rs.Key), tok)
	case needV:
		body += fmt.Sprintf(" %s %s _simv;", fc.text(rs.Value), tok)
	}
	fc.replace(rs.For, rs.Body.Lbrace+1, fmt.Sprintf("for _, _simk := range simrt.MapKeys(%q, %s).([]%s) {%s", site, mv, kt, body))
	fc.skip[rs.X] = true
	fc.covered[rs] = true
	fc.note("map-range", site)
}
