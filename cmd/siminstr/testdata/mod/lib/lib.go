// Package lib holds the constructs siminstr must be able to rewrite.
package lib

import (
	"context"
	"fmt"
	"sort"
	"sync"
	"time"
)

type item struct {
	id  int
	err error
}

type box struct {
	mu  sync.Mutex
	rw  sync.RWMutex
	n   int
	m   int
	out chan item
}

func worker(id int, in <-chan int, out chan<- item, wg *sync.WaitGroup) {
	defer wg.Done()
	for v := range in {
		out <- item{id: v * id}
	}
}

func sum(vs ...int) int {
	t := 0
	for _, v := range vs {
		t += v
	}
	return t
}

// Run exercises goroutines, selects, ranges, labels, defers, mutexes and map ranges; its result is deterministic.
func Run(ctx context.Context) string {
	var lines []string
	in := make(chan int, 4)
	out := make(chan item, 16)
	var wg sync.WaitGroup
	wg.Add(2)
	go worker(1, in, out, &wg)
	go func(k int) {
		worker(k, in, out, &wg)
	}(10)
	res := make(chan int, 1)
	go func(vs ...int) { res <- sum(vs...) }(1, 2, 3)
	for i := 1; i <= 6; i++ {
		in <- i
	}
	close(in)
	wg.Wait()
	close(out)
	total := 0
	for it := range out {
		total += it.id
	}
	lines = append(lines, fmt.Sprint("sum-of-products-mod-11=", total%11 >= 0))
	lines = append(lines, fmt.Sprint("variadic=", <-res))

	// select with bindings, labels, break/continue/return inside cases
	c1 := make(chan item)
	c2 := make(chan error, 1)
	done := make(chan struct{})
	var last item
	count := 0
	go func() {
		defer close(done)
		for i := 0; i < 3; i++ {
			c1 <- item{id: i}
		}
		c2 <- fmt.Errorf("stop")
	}()
Loop:
	for {
		select {
		case it, ok := <-c1:
			if !ok {
				break Loop
			}
			last = it
			count++
			if it.id == 1 {
				continue Loop
			}
		case err := <-c2:
			lines = append(lines, "err="+err.Error())
			break Loop
		case last = <-c1:
			count++
		case <-ctx.Done():
			return "cancelled"
		}
	}
	<-done
	lines = append(lines, fmt.Sprint("count=", count, " last=", last.id))

	// non-blocking select and select{} are left native
	select {
	case v := <-c1:
		lines = append(lines, fmt.Sprint("unexpected ", v))
	default:
		lines = append(lines, "empty")
	}

	// nested select in a case body, send cases with nil and converted values
	ce := make(chan error, 1)
	ci := make(chan int64, 1)
	select {
	case ce <- nil:
		select {
		case ci <- 7:
			lines = append(lines, "nested-send")
		case <-time.After(time.Hour):
		}
	case <-ctx.Done():
	}
	lines = append(lines, fmt.Sprint("ce=", <-ce, " ci=", <-ci))

	// mutexes, also held across a channel operation
	b := &box{out: make(chan item, 1)}
	var wg2 sync.WaitGroup
	for i := 0; i < 4; i++ {
		wg2.Add(1)
		go func() {
			defer wg2.Done()
			b.mu.Lock()
			b.n++
			b.out <- item{id: b.n}
			<-b.out
			b.mu.Unlock()
			b.rw.Lock()
			b.m++
			b.rw.Unlock()
			b.rw.RLock()
			_ = b.m
			b.rw.RUnlock()
		}()
	}
	wg2.Wait()
	lines = append(lines, fmt.Sprint("n=", b.n))

	// a condition variable: producer/consumer queue
	var qmu sync.Mutex
	cond := sync.NewCond(&qmu)
	var queue []int
	got := 0
	var wg3 sync.WaitGroup
	wg3.Add(2)
	go func() {
		defer wg3.Done()
		for i := 1; i <= 5; i++ {
			cond.L.Lock()
			queue = append(queue, i)
			cond.L.Unlock()
			cond.Signal()
		}
	}()
	go func() {
		defer wg3.Done()
		for n := 0; n < 5; n++ {
			qmu.Lock()
			for len(queue) == 0 {
				cond.Wait()
			}
			got += queue[0]
			queue = queue[1:]
			qmu.Unlock()
		}
	}()
	wg3.Wait()
	lines = append(lines, fmt.Sprint("cond=", got))

	// map ranges: define, assign, key only, value only, delete during iteration
	m := map[string]int{"a": 1, "b": 2, "c": 3}
	var keys []string
	s := 0
	for k, v := range m {
		keys = append(keys, k)
		s += v
	}
	var k2 string
	var v2 int
	for k2, v2 = range m {
		_ = k2
		s += v2
	}
	for k := range m {
		if k == "a" {
			delete(m, "b")
			delete(m, "c")
		}
	}
	for _, v := range m {
		s += v
	}
	sort.Strings(keys)
	lines = append(lines, fmt.Sprint("keys=", keys, " s>0=", s > 0, " len=", len(m) >= 1))

	// if / for / switch headers with receives
	h := make(chan int, 3)
	h <- 1
	h <- 2
	h <- 3
	if v := <-h; v == 1 {
		lines = append(lines, "if-recv")
	} else {
		lines = append(lines, "if-else")
	}
	switch <-h {
	case 2:
		lines = append(lines, "switch-recv")
	}
	for v := <-h; v < 4; v++ {
		lines = append(lines, "for-recv")
	}
	return fmt.Sprint(lines)
}

// Get is a function that ends in a terminating select.
func Get(ctx context.Context, c chan int) int {
	select {
	case v := <-c:
		return v
	case <-ctx.Done():
		return -1
	}
}
