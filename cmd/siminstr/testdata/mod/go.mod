module example.com/t

go 1.16
