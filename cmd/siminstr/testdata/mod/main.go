package main

import (
	"context"
	"fmt"

	"example.com/t/lib"
)

func main() {
	c := make(chan int, 1)
	c <- 5
	fmt.Println(lib.Run(context.Background()), lib.Get(context.Background(), c))
}
