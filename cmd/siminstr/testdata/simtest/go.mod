module s

go 1.26

require example.com/t v0.0.0

replace example.com/t => ../b
