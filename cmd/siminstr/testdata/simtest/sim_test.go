package s

import (
	"context"
	"fmt"
	"os"
	"strings"
	"testing"
	"testing/synctest"
	"time"

	"example.com/t/lib"
	"example.com/t/simrt"
)

// The rewritten package must give the same result under every seeded schedule, and the same schedule twice.
func TestUnderSimulation(t *testing.T) {
	want := strings.TrimSpace(os.Getenv("WANT"))
	for seed := uint64(1); seed <= 40; seed++ {
		var first string
		for rep := 0; rep < 2; rep++ {
			var got, trace string
			synctest.Test(t, func(t *testing.T) {
				sim := &simrt.Sim{Seed: seed, SpeedClasses: []int64{1, 4, 40, 400}, SpeedSeed: seed, MaxYields: 100000}
				simrt.Start(sim)
				defer simrt.Stop()
				simrt.Register("caller")
				c := make(chan int, 1)
				c <- 5
				got = fmt.Sprint(lib.Run(context.Background()), " ", lib.Get(context.Background(), c))
				time.Sleep(time.Hour) // goroutines still inside a deferred close finish (the fake clock stops when the root returns)
				var sb strings.Builder
				for _, e := range sim.Merged() {
					fmt.Fprintf(&sb, "%d %s %s\n", e.T, e.G, e.Site)
				}
				trace = sb.String()
				if a := sim.Aborted(); a != "" {
					t.Fatalf("seed %d aborted: %s %v", seed, a, sim.Crashes())
				}
			})
			if want != "" && got != want {
				t.Fatalf("seed %d: got %q want %q", seed, got, want)
			}
			if rep == 0 {
				first = got + trace
			} else if first != got+trace {
				t.Fatalf("seed %d: two executions of one seed differ", seed)
			}
		}
	}
}
