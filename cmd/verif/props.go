package main

// propInfo is the driver's table of claimed properties.
type propInfo struct {
	Engine           string
	Race             bool
	Level            string
	QuickRuns        int
	ThoroughRuns     int
	QuickSecs        int // wall-clock cap for dispatching (a safety net, not the budget)
	ThoroughSecs     int
	Chunk            int
	Group            int // >1: Group consecutive run indices share one workload (tape) and enumerate disjoint slices of its cases
	ChunkTimeoutSecs int
	Rule             string
	Probes           []string
	Real             []string
	Simulated        []string
	Assumptions      []string
}

var pbfReal = []string{"osmpbf (instrumented copy of /repo's working tree: scanner, decoder pipeline goroutines, dataDecoder)", "protoscan", "google.golang.org/protobuf", "czlib via cgo", "the Go runtime's channels, select (through simrt.Select), context and WaitGroup"}
var pbfSim = []string{"input io.Reader (chunking, EOF, errors, damaged bytes)", "consumer goroutine (call script)", "canceller goroutine", "filter callbacks", "scheduler: per-goroutine seeded delays on testing/synctest's fake clock", "select choice and map order (simrt)"}

var commonAssumptions = []string{
	"the search samples schedules and inputs: a clean batch is evidence, not proof",
	"yields sit at channel operations, WaitGroup waits, goroutine starts and caller seams; orderings that differ only in unsynchronised memory accesses are covered by the race detector's happens-before analysis (pbfsim only), not by the scheduler",
	"the instrumented copy behaves like /repo: checked by `verif selftest fidelity` (repository tests pass on the instrumented copy in pass-through mode)",
}

var props = map[string]propInfo{
	"C06": {
		Engine: "pbfsim", Race: true, Level: "fault_enumeration",
		QuickRuns: 3 * 16, ThoroughRuns: 120 * 16, QuickSecs: 600, ThoroughSecs: 4 * 3600, Chunk: 1, Group: 16,
		Rule:   "a run is (generated PBF file, slice): the file comes from the choice tape (3-6 data blocks, optional header, every optional part toggled); its cases are every cut offset (thorough: all offsets 0..len; quick: all block/prefix/BlobHeader boundaries +-3, ~40 offsets through the first and last block, 24 drawn), 6 drawn I/O-error offsets, and every damage class of the catalogue x {first, middle, last} data block (header classes on the header), each at 1, 2, 3 and 11 decoders under a drawn delay policy and reader chunking; the 16 runs of a file enumerate disjoint slices of its cases. Every case is one simulated execution and is non-trivial (a fault is injected in each); distinct = distinct (file, case, interleaving hash)",
		Probes: []string{"error-after-correct-prefix", "error-after-nonempty-prefix", "clean-end-on-boundary", "io-error-returned"},
		Real:   pbfReal, Simulated: pbfSim,
		Assumptions: append([]string{"damage classes are the catalogue in h/pbfsim/c06.go (what the statement names); surplus column entries that nothing references are not a class", "Read on the simulated reader always returns"}, commonAssumptions...),
	},
}
