package main

// propInfo is the driver's table of claimed properties.
type propInfo struct {
	Engine           string
	Race             bool
	Level            string
	QuickRuns        int
	ThoroughRuns     int
	QuickSecs        int // wall-clock cap for dispatching (a safety net, not the budget)
	ThoroughSecs     int
	Chunk            int
	Group            int // >1: Group consecutive run indices share one workload (tape) and enumerate disjoint slices of its cases
	ChunkTimeoutSecs int
	Rule             string
	Probes           []string
	Real             []string
	Simulated        []string
	Assumptions      []string
}

var pbfReal = []string{"osmpbf (instrumented copy of /repo's working tree: scanner, decoder pipeline goroutines, dataDecoder)", "protoscan", "google.golang.org/protobuf", "czlib via cgo", "the Go runtime's channels, select (through simrt.Select), context and WaitGroup"}
var pbfSim = []string{"input io.Reader (chunking, EOF, errors, damaged bytes)", "consumer goroutine (call script)", "canceller goroutine", "filter callbacks", "scheduler: per-goroutine seeded delays on testing/synctest's fake clock", "select choice and map order (simrt)"}

var commonAssumptions = []string{
	"the search samples schedules and inputs: a clean batch is evidence, not proof",
	"yields sit at channel operations, WaitGroup waits, goroutine starts and caller seams; orderings that differ only in unsynchronised memory accesses are covered by the race detector's happens-before analysis (pbfsim only), not by the scheduler",
	"the instrumented copy behaves like /repo: checked by `verif selftest fidelity` (repository tests pass on the instrumented copy in pass-through mode)",
}

var props = map[string]propInfo{
	"C01": {
		Engine: "pbfsim", Race: true, Level: "exploration",
		QuickRuns: 8000, ThoroughRuns: 400000, QuickSecs: 600, ThoroughSecs: 4 * 3600, Chunk: 400,
		Rule:   "a run is one PBF file written from a model by the independent writer h/pbfwire (0-12, sometimes up to 40 blocks; header and each of its fields optional; per block granularity/offsets/date granularity present or absent with non-default values, raw or zlib, dense nodes with DenseInfo and each of its six columns and keys_vals present or absent, ways/relations with Info and each field optional, node locations on ways, empty ways/relations, changeset groups, unknown fields, parameter fields before or after the groups; optional parts are toggled with period = decoder count; 1 file in 8 may contain plain Node groups; 1 in 24 has a block with 8001-9500 dense nodes; 1 in 8 starts with a data block) scanned once at a decoder count from {1,2,3,4,5,7,10,11,16,32} under a drawn reader chunking and delay policy. Non-trivial: two blocks decoded by the same worker differ in their optional parts, or a block has non-default granularity/offsets/date granularity. distinct = distinct (file, decoder count, interleaving hash) among non-trivial executions",
		Probes: []string{"optional-parts-differ-on-one-worker", "non-default-granularity-or-offset", "more-decoders-than-blocks", "unbuffered-channels", "file-with-plain-node-group", "block-with-more-than-8000-elements", "decoders-interleaved-mid-block"},
		Real:   pbfReal, Simulated: pbfSim,
		Assumptions: append([]string{"the model of the format defaults is h/pbfwire/gen.go, written from osmformat.proto's documentation", "files have at most ~40 blocks and a few hundred elements"}, commonAssumptions...),
	},
	"C02": {
		Engine: "pbfsim", Race: true, Level: "exploration",
		QuickRuns: 2500, ThoroughRuns: 150000, QuickSecs: 600, ThoroughSecs: 4 * 3600, Chunk: 100,
		Rule:   "a run is one generated file (2-12, sometimes up to 40 blocks; 1 in 3 without a header block, i.e. a resumed stream; 1 in 30 with a block of 8001-9500 elements), a reference scan with 1 decoder and unit delays, and 3 executions at decoder counts drawn from 1..12,16,32 under drawn delay policies (per-goroutine speed classes 1..1000 quanta, consumer 1..4000), reader chunking, accept-all filter callbacks that are delay points in half of the executions, and in 1 run in 6 a second scanner that scans another file at the same time in the same simulated process (compared with its own reference). Oracle: delivered sequence deep-equal to the reference, snapshots at delivery equal values after the scan, no race report, no deadlock. Non-trivial: some later block finished decoding before an earlier one (observed through the callbacks). distinct = distinct (file, decoder count, interleaving hash) among non-trivial executions",
		Probes: []string{"later-block-finished-before-earlier", "more-decoders-than-blocks", "unbuffered-channels", "slow-filter-callbacks", "block-with-more-than-8000-elements", "stream-starts-with-a-data-block", "two-overlapping-scanners"},
		Real:   pbfReal, Simulated: pbfSim,
		Assumptions: commonAssumptions,
	},
	"C07": {
		Engine: "pbfsim", Race: true, Level: "exploration",
		QuickRuns: 3000, ThoroughRuns: 300000, QuickSecs: 600, ThoroughSecs: 4 * 3600, Chunk: 100,
		Rule:   "a run is one call history on a PBF scanner (3 in 4; 40-80 block files, 12-40 KB, with a long tail, decoders from {1,2,3,5,11,16}) or an XML scanner (1 in 4; 300-600 elements with up to 3 long runs of comments/unknown elements so that one Scan spans many reads): optional Header, Scan x k (k biased to the first third, but also up to past the end), then a stop - Close, cancel by the scanning goroutine, or cancel by a second goroutine that sleeps a drawn simulated duration (1..2^17 quanta) so that it lands at an arbitrary instant incl. inside Scan - then further Scan/Err/Close calls from a drawn script, under a drawn delay policy and reader chunking. 1 PBF history in 6 has a damaged block (catalogue of C06), 1 XML history in 6 is cut inside an element, which ends the scan with an error before the stop: Err must keep reporting that earlier error after Close/cancel; 1 in 12 is empty or ends inside its first block (Close must still return); 1 PBF stream in 4 starts with a data block. Oracle: sequential scanner model over the recorded history (simulated timestamps), Err precedence, bytes the reader handed out after the stop <= rest of the block in flight + one block + 4096, goroutine registry empty after Close / after a bare cancel at quiescence, no deadlock, no race report. Non-trivial: the stop was invoked while part of the input was still unread (pipeline in flight)",
		Probes: []string{"stop-landed-with-input-in-flight", "stop-with-long-unread-tail", "cancel-landed-inside-a-Scan-call", "stop-after-end-of-input", "bare-cancel-quiescence-checked", "unbuffered-channels", "error-recorded-before-the-stop", "stream-starts-with-a-data-block", "empty-input"},
		Real:   append([]string{"osmxml scanner + encoding/xml"}, pbfReal...), Simulated: pbfSim,
		Assumptions: append([]string{"promptness allowance: rest of the block in flight + one further block + 4096 bytes (xml: one 4096-byte buffer refill + 512); deeper read-ahead added by a refactor would need it raised", "Read on the simulated reader always returns"}, commonAssumptions...),
	},
	"C08": {
		Engine: "pbfsim", Race: true, Level: "exploration",
		QuickRuns: 4000, ThoroughRuns: 150000, QuickSecs: 600, ThoroughSecs: 4 * 3600, Chunk: 200,
		Rule:   "a run is one generated file, an unfiltered 1-decoder reference scan, and 3 executions each with a drawn skip mask (0..7), a drawn predicate family per element type (accept-all, reject-all, alternate by ordinal, hash of the whole content, only tagged, reject-2-accept-1, content length parity; each installed with probability 3/4), decoder count from {1,2,3,4,5,7,10,11,16,32} and delay policy; predicates are functions of the element only, inspect but never retain it, and are delay points in half of the executions. Oracle: output = reference filtered by mask and predicate, deep-equal and in order; snapshots at delivery = values after the scan. Non-trivial: in some block an element was rejected and a later element of that block accepted (memory reuse exercised)",
		Probes: []string{"rejected-then-accepted-in-one-block", "skip-flags-set", "everything-filtered-out"},
		Real:   pbfReal, Simulated: pbfSim,
		Assumptions: commonAssumptions,
	},
	"C09": {
		Engine: "pbfsim", Race: true, Level: "exploration",
		QuickRuns: 1500, ThoroughRuns: 60000, QuickSecs: 600, ThoroughSecs: 4 * 3600, Chunk: 100,
		Rule:   "a run is one generated file (1-8 blocks) with a drawn skip mask (empty blocks), a full scan that checks FullyScannedBytes / PreviousFullyScannedBytes after every successful Scan against the file's block table, and crash/restart executions: the consumer stops after k objects (k = 0, 1, all and 6 drawn values), persists the reported offset (and, separately, the previous offset) and a new scanner with independently drawn decoder count and schedule is started on data[offset:] or on a seekable reader over the whole data positioned at the offset, half of the time calling Header() first; it must yield exactly the remaining objects beginning with the first object of that block. The offsets are also read after the final Scan()==false and after a scan cancelled at a drawn point (by the scanning goroutine after k objects, or by a second goroutine after a drawn simulated delay): the count must be the start of an existing block, not before the block of the most recently returned object and not beyond any undelivered object, and a scanner resumed there must yield exactly the objects from that block on. Every restart execution is non-trivial",
		Probes: []string{"empty-blocks-from-skip-flags", "resumed-scan-starts-at-a-data-block", "offset-read-after-end-of-input", "offset-read-after-cancelled-scan", "resumed-through-a-seekable-reader", "resumed-scan-asked-for-header-first"},
		Real:   pbfReal, Simulated: pbfSim,
		Assumptions: append([]string{"offsets are asserted after successful Scan calls only"}, commonAssumptions...),
	},
	"C06": {
		Engine: "pbfsim", Race: true, Level: "fault_enumeration",
		QuickRuns: 6 * 16, ThoroughRuns: 400 * 16, QuickSecs: 600, ThoroughSecs: 4 * 3600, Chunk: 1, Group: 16,
		Rule:   "a run is (generated PBF file, slice): the file comes from the choice tape (3-6 data blocks, optional header, every optional part toggled); its cases are every cut offset (thorough: all offsets 0..len; quick: all block/prefix/BlobHeader boundaries +-3, ~40 offsets through the first and last block, 24 drawn), 6 drawn I/O-error offsets, 24 seeded bit flips in the PrimitiveBlock bytes of up to 3 raw blocks (oracle: no crash, no hang, objects of the earlier blocks first), and every damage class of the catalogue x {first, middle, last} data block (header classes on the header), each at 1, 2, 3 and 11 decoders under a drawn delay policy and reader chunking; the 16 runs of a file enumerate disjoint slices of its cases. Every case is one simulated execution and is non-trivial (a fault is injected in each); distinct = distinct (file, case, interleaving hash)",
		Probes: []string{"error-after-correct-prefix", "error-after-nonempty-prefix", "clean-end-on-boundary", "io-error-returned", "bit-flip-detected", "bit-flip-undetected"},
		Real:   pbfReal, Simulated: pbfSim,
		Assumptions: append([]string{"damage classes are the catalogue in h/pbfsim/c06.go (what the statement names); surplus column entries that nothing references are not a class", "Read on the simulated reader always returns"}, commonAssumptions...),
	},
}
