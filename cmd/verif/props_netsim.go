package main

var netReal = []string{"replication and osmapi packages of the scratch copy of /repo's working tree (siminstr finds no goroutine, channel, select or map range in them, so the copy is textually /repo's code)", "net/http client side (http.Client, http.NewRequest, URL parsing)", "encoding/xml", "context"}

func init() {
	props["C19"] = propInfo{
		Engine: "netsim", Race: false, Level: "exploration",
		QuickRuns: 16 + 700, ThoroughRuns: 96 + 30000, QuickSecs: 900, ThoroughSecs: 2 * 3600, Chunk: 20,
		Rule:      "run indices 0..15 (quick; 0..95 thorough) enumerate the exhaustive small scope in interleaved slices: for each of minute/hour/day/changeset replication every directory of n<=8 (thorough: n<=11) consecutive sequences starting at the kind's first sequence (1; 2007990 for changesets), every set of missing state files among the n-1 below the newest, and every boundary query time (before all, just before the first, equal to each sequence's timestamp, between each neighbouring pair, after all); state-file rendering variant, base URL (default, custom, custom with path prefix) and call form (method / package-level) are a hash of the case index. Every later run draws 300 sampled scenarios from the choice tape: kind, range length log-uniform up to 10^7, step/jitter/pauses of the timestamp assignment, 0-4 gap plans (isolated; run including the first file; run right above it; run right below the newest; run around the target; run ending at / starting at a probe of the bisection towards the target; everything between a bisection interval's lower end and its probe; at most 60 missing files), query time (equal, between, one time unit before/after a state, before all, after all, equal to first/newest). One execution = one lookup call against the simulated planet. Non-trivial = the query is not after the newest state and the directory has at least three sequences or at least one missing file; distinct = distinct (directory+query hash, request-sequence hash)",
		Probes:    []string{"exhaustive-small-scope-slices", "gap-hit-by-the-search", "run-of-gaps-walked", "first-file-missing", "answer-right-above-a-gap", "query-before-first", "query-equal-to-a-state", "query-between-states", "query-after-newest", "one-or-two-states", "range-of-a-million-or-more", "changeset-state-file-with-off-by-one-number"},
		Real:      netReal,
		Simulated: []string{"planet.osm.org as an in-process http.RoundTripper: directory of state files per replication kind, 404 for missing files, state.txt / state.yaml, Java-properties and YAML renderings with the timestamp formats the server has used, the changeset state's off-by-one number", "request budget 8*(ceil(log2 newest)+2)*(1+missing)+16 enforced by the transport (bounded liveness)"},
		Assumptions: []string{
			"changeset directories start at sequence 2007990 (the first changeset state file on the planet server); the 2 million sequence numbers below it never had a state file and are not counted as missing files in the request budget",
			"the newest sequence's own state file always exists (state.txt/state.yaml is a copy of it)",
			"timestamps are strictly increasing in the sequence number, at one-second resolution for minute/hour/day (the format carries no fraction) and nanosecond resolution for changesets",
			"sampled directories have at most 60 missing files so that the budget formula stays below the hard cap of 60000 requests; a search that spins without issuing requests is caught by the driver's watchdog (exit 2)",
			"the search samples inputs beyond the exhaustive small scope: a clean batch is evidence, not proof",
		},
	}
	props["C20"] = propInfo{
		Engine: "netsim", Race: false, Level: "fault_enumeration",
		QuickRuns: 6 * 40, ThoroughRuns: 6 * 1500, QuickSecs: 600, ThoroughSecs: 2 * 3600, Chunk: 12, Group: 6,
		Rule:      "a run is (argument draw, slice): for each of the 26 exported calls four sets of arguments (ids up to MaxInt64, id lists with repeats, versions, bounding boxes with 0/6/7 decimals, composed search strings that need escaping, 0-2 At options in three time zones, notes options in both orders incl. boundary and invalid limits) and response content seeds come from the choice tape (a cell picks one set by its coordinates); then the complete table 26 calls x 3 call forms {method on a Datasource with its own Client, package-level function, method on a Datasource with Client nil that inherits osmapi.DefaultDatasource.Client} x 27 statuses {200; 201,202,203,204,206,300,304 and 301,302,307 without a Location header, all of which net/http hands to the caller unchanged; 400,401,403,404,405,409,410,412,414,429,500,501,502,503,504,509} x 6 response shapes {0,1,many own elements} x {alone, mixed with elements of other kinds} x 4 limiter modes {none, grants after d, refuses, context cancelled while waiting} x {default base URL, custom base URL: one of three by the cell's coordinates, two of them with percent escapes (%20, %2F) in the path} = 101088 cells is enumerated, the 6 runs that share a tape executing disjoint slices. Cells with a limiter execute inside a testing/synctest bubble (fake clock), 256 cells per bubble. Every cell is one call = one execution; non-trivial = a fault is injected (status != 200 and/or a limiter event); distinct = distinct (argument draw, cell, request history)",
		Probes:    []string{"status-200-decoded", "non-200-status-below-400-rejected", "single-element-call-rejected-wrong-count", "invalid-notes-limit-rejected", "request-carried-the-callers-context", "request-through-inherited-default-client", "limiter-waited-with-inherited-client", "base-url-with-percent-escapes"},
		Real:      netReal,
		Simulated: []string{"the OSM API server as an in-process http.RoundTripper: status, hand-written XML documents of node/way/relation/changeset/note/user elements, osmChange documents", "the RateLimiter (delay, refusal, wait ended by context cancellation) and the cancelling goroutine on testing/synctest's fake clock"},
		Assumptions: []string{
			"the endpoint table in h/netsim/c20.go is transcribed from the OSM API v0.6 documentation; the at= parameter of feature options is taken from the library's doc comment (it is not an API v0.6 parameter)",
			"bounding boxes are compared on OSM's coordinate grid of 1e-7 degrees; id lists as multisets; other query parameters as an exact multiset; path and base exactly",
			"element equality covers ids, versions, changeset, user, visibility, timestamps, coordinates, tags, way nodes, relation members, changeset discussion, note comments, user counters; the changeset attribute changes_count of the API has no field in the library's type and is not compared",
			"arguments are sampled; the status x shape x limiter x base x call-form table is covered completely for every argument draw",
			"statuses below 200 are not enumerated (net/http's transport consumes 1xx itself); 3xx statuses are served without a Location header, so the client cannot follow them and exactly one request is still expected; for a Datasource with Client nil only the use of its own Limiter and BaseURL is asserted, DefaultDatasource.Limiter is nil during such a cell",
		},
	}
}
