package main

import (
	"fmt"
	"os"
	"os/exec"
	"path/filepath"
	"sort"
	"strings"
	"time"
)

func cmdSelftest(args []string) int {
	if len(args) < 1 {
		fmt.Fprintln(os.Stderr, "usage: verif selftest determinism [--procs N] [ID...] | fidelity | instr")
		return 2
	}
	switch args[0] {
	case "determinism":
		return selfDeterminism(args[1:])
	case "fidelity":
		return selfFidelity()
	case "instr":
		cmd := exec.Command(filepath.Join(verifDir, "cmd/siminstr/selfcheck.sh"))
		cmd.Env = goEnv()
		out, err := cmd.CombinedOutput()
		fmt.Print(string(out))
		if err != nil {
			return 2
		}
		return 0
	}
	fmt.Fprintln(os.Stderr, "unknown selftest", args[0])
	return 2
}

// selfDeterminism executes the same run indices of each property in many separate processes at
// several GOMAXPROCS values and compares the per-run digests (verdicts, interleaving hashes,
// simulated time, yields, probes) byte for byte.
func selfDeterminism(args []string) int {
	nproc := 8
	if v := flagVal(args, "--procs", ""); v != "" {
		fmt.Sscan(v, &nproc)
	}
	var ids []string
	for i := 0; i < len(args); i++ {
		if args[i] == "--procs" {
			i++
			continue
		}
		if !strings.HasPrefix(args[i], "--") {
			ids = append(ids, args[i])
		}
	}
	if len(ids) == 0 {
		for id := range props {
			ids = append(ids, id)
		}
		sort.Strings(ids)
	}
	seed := seedFromEnv()
	bad := 0
	builtBy := map[string]*built{}
	for _, id := range ids {
		p, ok := props[id]
		if !ok {
			fmt.Fprintf(os.Stderr, "unknown property %s\n", id)
			return 2
		}
		key := fmt.Sprintf("%s-%v", p.Engine, p.Race)
		b := builtBy[key]
		if b == nil {
			b = build(p.Engine, p.Race)
			builtBy[key] = b
		}
		n := 64
		if p.QuickRuns < n {
			n = p.QuickRuns
		}
		base := []int{1, 4, 16, 2, 1, 16, 4, 8}
		cpus := make([]int, nproc)
		for k := range cpus {
			cpus[k] = base[k%len(base)]
		}
		type res struct {
			cpu  int
			text string
		}
		results := make([]res, len(cpus))
		done := make(chan int)
		slots := make(chan struct{}, 8) // at most 8 worker processes at a time
		for k, c := range cpus {
			go func(k, c int) {
				slots <- struct{}{}
				defer func() { <-slots }()
				out := filepath.Join(b.scratch, fmt.Sprintf("det-%s-%d.txt", id, k))
				j := &job{Property: id, Engine: p.Engine, Tier: "quick", Seed: seed, From: 0, To: n, ViolDir: b.scratch, NoShrink: true, TraceOut: out, Known: loadKnown(), Group: p.Group}
				r := runWorker(b, j, 200000+k*1000+len(id), c, 20*time.Minute)
				tb, _ := os.ReadFile(out)
				results[k] = res{c, string(tb)}
				if r.agg == nil && !strings.Contains(r.stderr, "DATA RACE") {
					results[k].text += "\nWORKER FAILED: " + tail(r.stderr, 1500)
				}
				done <- k
			}(k, c)
		}
		for range cpus {
			<-done
		}
		ok = true
		for k := 1; k < len(results); k++ {
			if results[k].text != results[0].text {
				ok = false
				a, bb := strings.Split(results[0].text, "\n"), strings.Split(results[k].text, "\n")
				for i := 0; i < len(a) && i < len(bb); i++ {
					if a[i] != bb[i] {
						fmt.Printf("  %s: first divergence at line %d: cpu=%d %q vs cpu=%d %q\n", id, i, results[0].cpu, a[i], results[k].cpu, bb[i])
						break
					}
				}
				if len(a) != len(bb) {
					fmt.Printf("  %s: %d vs %d digest lines\n", id, len(a), len(bb))
				}
			}
		}
		lines := strings.Count(results[0].text, "\n")
		if ok && lines > 0 {
			fmt.Printf("determinism %s: %d runs x %d processes (GOMAXPROCS %v): identical digests\n", id, lines, len(cpus), cpus)
		} else {
			fmt.Printf("determinism %s: DIVERGENCE (or no digests: %d lines)\n", id, lines)
			bad++
		}
	}
	if bad > 0 {
		return 2
	}
	return 0
}

// selfFidelity runs the repository's own tests on the instrumented copy with simrt in pass-through mode.
func selfFidelity() int {
	b := build("pbfsim", false)
	pkgs := []string{".", "./annotate/...", "./internal/...", "./osmapi/...", "./osmgeojson/...", "./osmtest/...", "./osmxml/...", "./replication/..."}
	cmd := exec.Command("go", append([]string{"test", "-count=1", "-vet=off", "-timeout", "20m"}, pkgs...)...)
	cmd.Dir = filepath.Join(b.scratch, "osm")
	cmd.Env = goEnv()
	out, err := cmd.CombinedOutput()
	fmt.Print(string(out))
	if err != nil {
		fmt.Println("fidelity: FAILED:", err)
		return 2
	}
	fmt.Println("fidelity: the repository's tests (all packages except osmpbf, whose fixtures are absent in this sandbox) pass on the instrumented copy")
	return 0
}
