package main

var annoReal = []string{"annotate, annotate/internal/core, annotate/shared (instrumented copy of /repo's working tree: T4 at the child-location map range in compute.go, T1-T3 in order.go)", "osm element types: Updates.SortByIndex, Way/Relation.ApplyUpdatesUpTo, the SortByIDVersion sorts, HistoryDatasourcer interfaces", "the Go runtime's channels, context and WaitGroup (order.go), select through simrt.Select"}
var annoSim = []string{"OSM database: event-sourced model of uploads on a simulated clock (h/annosim/db.go)", "history datasource with a fault plan (missing history, dropped versions, unsorted history, newer versions, generic error on the i-th call, slow call)", "map iteration order (simrt.MapKeys: sorted, reverse through mirrored ids, seeded permutations)", "C14: consumer goroutine (call script), canceller goroutine, per-goroutine seeded delays on testing/synctest's fake clock"}

func init() {
	props["C12"] = propInfo{
		Engine: "annosim", Race: false, Level: "exploration",
		QuickRuns: 2400, ThoroughRuns: 90000, QuickSecs: 600, ThoroughSecs: 4 * 3600, Chunk: 50,
		Rule:   "a run is a batch of 24 generated histories (one way or relation with 1-6 children over 1-16 uploads; biased to bursts of same-instant versions of one child, many child edits per parent version, children repeated at several indexes; commit-time and pre-commit regimes; thresholds 0/1s/1min/30min/2h/default; one history in five carries a datasource fault plan and/or ignore options). Every history is annotated 8 times on fresh copies under 8 iteration orders of the child-location map: sorted, reverse (sorted order over mirrored child ids) and 6 seeded permutations; an execution is one annotation. Non-trivial = the history yields a parent version with more than 12 updates or two updates sharing (index, timestamp); distinct = distinct (history hash, order in which the children were fetched)",
		Probes: []string{"parent-with-more-than-12-updates", "updates-sharing-index-and-timestamp", "more-than-12-updates-with-ties", "child-at-several-indexes-with-updates", "relation-parent", "pre-commit-regime", "map-orders-distinct", "all-orders-failed", "first-reported-error-differs-between-orders", "deleted-parent-version"},
		Real:   annoReal, Simulated: annoSim,
		Assumptions: append([]string{"map iteration order is the only nondeterminism annotation can see (no goroutine, clock or randomness in annotate.Ways/Relations: DESIGN.md section 2); it is sampled, 8 orders per history", "multipolygon/boundary relations (member orientation) are not generated"}, commonAssumptions...),
	}
}
