// Command verif is the driver of /verif's deterministic-simulation checks.
//
//	verif check <ID> [--tier quick|thorough] [--runs N] [--workers N]
//	verif replay <replay.json>
//	verif selftest determinism [ID...]
//	verif selftest fidelity
//
// Exit status: 0 the property held on everything explored; 1 a violation was found
// (a line "VIOLATION property=<id> replay=<path>" is printed); 2 infrastructure trouble
// (build failure, watchdog, machinery bug) — never reported as a violation.
package main

import (
	"bufio"
	"bytes"
	"encoding/json"
	"fmt"
	"io"
	"os"
	"os/exec"
	"os/signal"
	"path/filepath"
	"regexp"
	"runtime"
	"sort"
	"strconv"
	"strings"
	"sync"
	"syscall"
	"time"
)

const defaultSeed = 20261003

// distinctCap bounds the driver's memory for the distinct-hash sets (about 1 GB per measure at the cap).
const distinctCap = 20000000

var verifDir = "/verif"
var repoDir = "/repo"

func infra(f string, a ...interface{}) {
	fmt.Fprintf(os.Stderr, "verif: infrastructure: "+f+"\n", a...)
	cleanup()
	os.Exit(2)
}

var scratchDirs []string
var cleanupMu sync.Mutex

func cleanup() {
	cleanupMu.Lock()
	defer cleanupMu.Unlock()
	for _, d := range scratchDirs {
		os.RemoveAll(d)
	}
	scratchDirs = nil
}

func main() {
	if v := os.Getenv("VERIF_DIR"); v != "" {
		verifDir = v
	}
	if v := os.Getenv("VERIF_REPO"); v != "" {
		repoDir = v
	}
	sig := make(chan os.Signal, 1)
	signal.Notify(sig, syscall.SIGINT, syscall.SIGTERM)
	go func() { <-sig; cleanup(); os.Exit(2) }()

	if len(os.Args) < 2 {
		fmt.Fprintln(os.Stderr, "usage: verif check <ID> [--tier quick|thorough] | replay <file> | selftest determinism|fidelity")
		os.Exit(2)
	}
	var code int
	switch os.Args[1] {
	case "check":
		code = cmdCheck(os.Args[2:])
	case "replay":
		code = cmdReplay(os.Args[2:])
	case "selftest":
		code = cmdSelftest(os.Args[2:])
	default:
		fmt.Fprintln(os.Stderr, "unknown command", os.Args[1])
		code = 2
	}
	cleanup()
	os.Exit(code)
}

// ---------------------------------------------------------------- build

func goTool() string {
	if p, err := exec.LookPath("go1.26.8"); err == nil {
		return p
	}
	return "/opt/veriftools/go1.26.8/bin/go"
}

func goEnv() []string {
	env := os.Environ()
	env = append(env, "GOFLAGS=-mod=mod", "GOPROXY=off", "GOSUMDB=off", "GOTOOLCHAIN=local", "CGO_ENABLED=1")
	return env
}

func copyTree(src, dst string, skip func(rel string, fi os.FileInfo) bool) error {
	return filepath.Walk(src, func(p string, fi os.FileInfo, err error) error {
		if err != nil {
			return err
		}
		rel, _ := filepath.Rel(src, p)
		if rel != "." && skip != nil && skip(rel, fi) {
			if fi.IsDir() {
				return filepath.SkipDir
			}
			return nil
		}
		target := filepath.Join(dst, rel)
		if fi.IsDir() {
			return os.MkdirAll(target, 0755)
		}
		if !fi.Mode().IsRegular() {
			return nil
		}
		in, err := os.Open(p)
		if err != nil {
			return err
		}
		defer in.Close()
		out, err := os.Create(target)
		if err != nil {
			return err
		}
		if _, err := io.Copy(out, in); err != nil {
			out.Close()
			return err
		}
		return out.Close()
	})
}

type built struct {
	scratch string
	bin     string
	instr   map[string]interface{}
}

// build copies /repo's working tree, instruments the copy and builds the engine's test binary.
func build(engine string, race bool) *built {
	scratch, err := os.MkdirTemp("", "verif.")
	if err != nil {
		infra("%v", err)
	}
	cleanupMu.Lock()
	scratchDirs = append(scratchDirs, scratch)
	cleanupMu.Unlock()
	osm := filepath.Join(scratch, "osm")
	err = copyTree(repoDir, osm, func(rel string, fi os.FileInfo) bool {
		n := fi.Name()
		return n == ".git" || strings.HasSuffix(n, ".pbf")
	})
	if err != nil {
		infra("copy of %s: %v", repoDir, err)
	}
	self, _ := os.Executable()
	siminstr := filepath.Join(filepath.Dir(self), "siminstr")
	report := filepath.Join(scratch, "instr.json")
	cmd := exec.Command(siminstr, "-dir", osm, "-simrt", filepath.Join(verifDir, "simrt"), "-report", report)
	cmd.Env = goEnv()
	if out, err := cmd.CombinedOutput(); err != nil {
		infra("siminstr failed: %v\n%s", err, out)
	}
	b := &built{scratch: scratch, instr: map[string]interface{}{}}
	if rb, err := os.ReadFile(report); err == nil {
		json.Unmarshal(rb, &b.instr)
	}
	h := filepath.Join(scratch, "h")
	if err := copyTree(filepath.Join(verifDir, "h"), h, nil); err != nil {
		infra("copy of harness: %v", err)
	}
	sum, err := os.ReadFile(filepath.Join(repoDir, "go.sum"))
	if err != nil {
		infra("%v", err)
	}
	os.WriteFile(filepath.Join(h, "go.sum"), sum, 0644)
	b.bin = filepath.Join(scratch, engine+".test")
	args := []string{"test", "-c", "-vet=off", "-o", b.bin}
	if race {
		args = append(args, "-race")
	}
	args = append(args, "./"+engine)
	cmd = exec.Command(goTool(), args...)
	cmd.Dir = h
	cmd.Env = goEnv()
	if out, err := cmd.CombinedOutput(); err != nil {
		infra("build of engine %s against the instrumented copy failed: %v\n%s", engine, err, out)
	}
	return b
}

// ---------------------------------------------------------------- job types (mirror h/kit)

type schedCfg struct {
	Seed  uint64   `json:"seed"`
	Flat  bool     `json:"flat,omitempty"`
	FlatG []string `json:"flat_goroutines,omitempty"`
}

type replayFile struct {
	Property   string           `json:"property"`
	Engine     string           `json:"engine"`
	Seed       uint64           `json:"verif_seed"`
	Run        int              `json:"run"`
	Tape       []uint64         `json:"tape"`
	Params     map[string]int64 `json:"params,omitempty"`
	Sched      schedCfg         `json:"sched"`
	Class      string           `json:"class"`
	Detail     string           `json:"detail"`
	Scenario   interface{}      `json:"scenario,omitempty"`
	Trace      []string         `json:"trace,omitempty"`
	ShrinkRuns int              `json:"shrink_reruns"`
	Note       string           `json:"note,omitempty"`
	Stderr     string           `json:"stderr,omitempty"`
	Reproduced *bool            `json:"replay_reproduced,omitempty"`
}

type known struct {
	Status   string `json:"status"`
	Property string `json:"property"`
	Class    string `json:"class"`
	What     string `json:"what"`
	Commit   string `json:"commit,omitempty"`
}

type job struct {
	Property string      `json:"property"`
	Engine   string      `json:"engine"`
	Tier     string      `json:"tier"`
	Seed     uint64      `json:"seed"`
	From     int         `json:"from"`
	To       int         `json:"to"`
	Out      string      `json:"out"`
	ViolDir  string      `json:"viol_dir"`
	Known    []known     `json:"known"`
	Replay   *replayFile `json:"replay,omitempty"`
	NoShrink bool        `json:"no_shrink,omitempty"`
	Group    int         `json:"group,omitempty"`
	TraceOut string      `json:"trace_out,omitempty"`
	MaxSecs  int         `json:"max_secs,omitempty"`
}

type found struct {
	Run    int    `json:"run"`
	Class  string `json:"class"`
	Detail string `json:"detail"`
	File   string `json:"file"`
	Known  bool   `json:"known"`
}

type violation struct {
	Class  string `json:"class"`
	Detail string `json:"detail"`
}

type replayResult struct {
	Reproduced bool        `json:"reproduced"`
	Violations []violation `json:"violations"`
	Digest     string      `json:"digest"`
	Scenario   interface{} `json:"scenario,omitempty"`
	Trace      []string    `json:"trace,omitempty"`
}

type agg struct {
	Property   string         `json:"property"`
	Runs       int            `json:"runs"`
	LastRun    int            `json:"last_run"`
	Evals      int            `json:"evals"`
	NonTrivial int            `json:"nontrivial"`
	Workloads  []uint64       `json:"workloads"`
	Scheds     []uint64       `json:"scheds"`
	States     []uint64       `json:"states"`
	Pairs      []uint64       `json:"pairs"`
	Probes     map[string]int `json:"probes"`
	Faults     map[string]int `json:"faults"`
	SimNanos   int64          `json:"sim_nanos"`
	Yields     int64          `json:"yields"`
	Samples    []interface{}  `json:"samples"`
	Found      []found        `json:"found"`
	KnownHits  map[string]int `json:"known_hits"`
	WallS      float64        `json:"wall_s"`
	Partial    bool           `json:"partial,omitempty"`
	Replayed   *replayResult  `json:"replayed,omitempty"`
}

func loadKnown() []known {
	b, err := os.ReadFile(filepath.Join(verifDir, "known_findings.json"))
	if err != nil {
		return nil
	}
	var k struct {
		Findings []known `json:"findings"`
	}
	if err := json.Unmarshal(b, &k); err != nil {
		infra("known_findings.json: %v", err)
	}
	return k.Findings
}

// ---------------------------------------------------------------- running a worker

type workerResult struct {
	agg      *agg
	lastRun  int
	exitCode int
	stderr   string
	stdout   string
	timedOut bool
}

func runWorker(b *built, j *job, idx int, cpus int, timeout time.Duration) workerResult {
	jobPath := filepath.Join(b.scratch, fmt.Sprintf("job-%d.json", idx))
	j.Out = filepath.Join(b.scratch, fmt.Sprintf("agg-%d.json", idx))
	os.Remove(j.Out)
	jb, _ := json.Marshal(j)
	os.WriteFile(jobPath, jb, 0644)
	cmd := exec.Command(b.bin, "-test.run", "^TestWorker$", "-test.timeout", "0", "-test.cpu", strconv.Itoa(cpus), "-test.v")
	cmd.Dir = b.scratch
	cmd.Env = append(os.Environ(), "VERIF_JOB="+jobPath, "GORACE=halt_on_error=1 exitcode=66 history_size=4")
	var stderr bytes.Buffer
	cmd.Stderr = &stderr
	stdout, _ := cmd.StdoutPipe()
	res := workerResult{lastRun: -1}
	if err := cmd.Start(); err != nil {
		infra("start worker: %v", err)
	}
	timer := time.AfterFunc(timeout, func() { res.timedOut = true; cmd.Process.Kill() })
	var outBuf bytes.Buffer
	sc := bufio.NewScanner(stdout)
	sc.Buffer(make([]byte, 1<<20), 1<<20)
	for sc.Scan() {
		line := sc.Text()
		if strings.HasPrefix(line, "@RUN ") {
			if n, err := strconv.Atoi(strings.TrimSpace(line[5:])); err == nil {
				res.lastRun = n
			}
			continue
		}
		if outBuf.Len() < 1<<20 {
			outBuf.WriteString(line + "\n")
		}
	}
	err := cmd.Wait()
	timer.Stop()
	res.stderr = stderr.String()
	res.stdout = outBuf.String()
	if err != nil {
		res.exitCode = 1
		if ee, ok := err.(*exec.ExitError); ok {
			res.exitCode = ee.ExitCode()
		}
	}
	if ab, err := os.ReadFile(j.Out); err == nil {
		var a agg
		if json.Unmarshal(ab, &a) == nil {
			res.agg = &a
		}
	}
	return res
}

var raceFrame = regexp.MustCompile(`(?m)^\s+(\S+)\(.*\)\n\s+(\S+\.go):(\d+)`)

// raceClass builds a stable class from a race report: the first library frame of each of the two accesses.
func raceClass(property, stderr string) (string, bool) {
	i := strings.Index(stderr, "WARNING: DATA RACE")
	if i < 0 {
		return "", false
	}
	rep := stderr[i:]
	if j := strings.Index(rep, "=================="); j > 0 {
		rep = rep[:j]
	}
	// split into the two access sections
	secs := regexp.MustCompile(`(?m)^(Read|Write|Previous read|Previous write) at `).FindAllStringIndex(rep, -1)
	var tops []string
	harnessOnly := true
	for k, s := range secs {
		end := len(rep)
		if k+1 < len(secs) {
			end = secs[k+1][0]
		} else if g := strings.Index(rep[s[0]:], "Goroutine "); g > 0 {
			end = s[0] + g
		}
		sec := rep[s[0]:end]
		top := "?"
		if strings.Contains(sec, "/h/") {
			top = "calling-code" // the access is in the caller's (harness) goroutine, e.g. reading a retained object
		}
		for _, m := range raceFrame.FindAllStringSubmatch(sec, -1) {
			fn, file, line := m[1], m[2], m[3]
			if strings.Contains(file, "/osm/") && !strings.Contains(file, "/osm/simrt/") {
				rel := file[strings.Index(file, "/osm/")+5:]
				top = fmt.Sprintf("%s:%s", rel, line)
				_ = fn
				harnessOnly = false
				break
			}
		}
		tops = append(tops, top)
	}
	sort.Strings(tops)
	if harnessOnly {
		return "", false
	}
	return fmt.Sprintf("%s/data-race/%s", property, strings.Join(tops, "+")), true
}

// ---------------------------------------------------------------- check

func flagVal(args []string, name, def string) string {
	for i, a := range args {
		if a == name && i+1 < len(args) {
			return args[i+1]
		}
		if strings.HasPrefix(a, name+"=") {
			return a[len(name)+1:]
		}
	}
	return def
}

func seedFromEnv() uint64 {
	if v := os.Getenv("VERIF_SEED"); v != "" {
		if n, err := strconv.ParseInt(v, 10, 64); err == nil {
			return uint64(n)
		}
		if n, err := strconv.ParseUint(v, 10, 64); err == nil {
			return n
		}
	}
	return defaultSeed
}

type checkOut struct {
	code       int
	merged     *agg
	violations []string // replay paths
}

func cmdCheck(args []string) int {
	if len(args) < 1 {
		fmt.Fprintln(os.Stderr, "usage: verif check <ID> [--tier quick|thorough]")
		return 2
	}
	id := args[0]
	p, ok := props[id]
	if !ok {
		fmt.Fprintf(os.Stderr, "verif: property %s is not claimed (see MANIFEST.json not_applicable)\n", id)
		return 2
	}
	tier := flagVal(args, "--tier", os.Getenv("VERIF_TIER"))
	if tier != "thorough" {
		tier = "quick"
	}
	seed := seedFromEnv()
	runs := p.QuickRuns
	maxWall := p.QuickSecs
	if tier == "thorough" {
		runs = p.ThoroughRuns
		maxWall = p.ThoroughSecs
	}
	if v := flagVal(args, "--runs", ""); v != "" {
		runs, _ = strconv.Atoi(v)
	}
	if v := flagVal(args, "--secs", ""); v != "" {
		maxWall, _ = strconv.Atoi(v)
	}
	workers := runtime.NumCPU()
	if workers > 16 {
		workers = 16
	}
	if v := flagVal(args, "--workers", ""); v != "" {
		workers, _ = strconv.Atoi(v)
	}
	start := time.Now()
	fmt.Printf("verif: check %s tier=%s VERIF_SEED=%d runs=%d workers=%d\n", id, tier, seed, runs, workers)
	b := build(p.Engine, p.Race)
	fmt.Printf("verif: built %s (race=%v) from %s in %.1fs\n", p.Engine, p.Race, repoDir, time.Since(start).Seconds())
	kn := loadKnown()

	violDir := filepath.Join(b.scratch, "viol")
	os.MkdirAll(violDir, 0755)

	// chunk queue
	type chunk struct{ from, to int }
	var queue []chunk
	cs := p.Chunk
	if cs <= 0 {
		cs = 200
	}
	if runs/cs < workers*2 {
		cs = runs / (workers * 2)
		if cs < 1 {
			cs = 1
		}
	}
	for f := 0; f < runs; f += cs {
		t := f + cs
		if t > runs {
			t = runs
		}
		queue = append(queue, chunk{f, t})
	}
	var mu sync.Mutex
	merged := &agg{Property: id, Probes: map[string]int{}, Faults: map[string]int{}, KnownHits: map[string]int{}}
	wl, sch, sts, prs := map[uint64]bool{}, map[uint64]bool{}, map[uint64]bool{}, map[uint64]bool{}
	var founds []found
	var crashFiles []found
	infraMsg := ""
	deadline := start.Add(time.Duration(maxWall) * time.Second)
	widx := 0
	capped := false
	inflight := 0
	var wg sync.WaitGroup
	chunkTimeout := time.Duration(p.ChunkTimeoutSecs) * time.Second
	if chunkTimeout == 0 {
		chunkTimeout = 15 * time.Minute
	}
	for w := 0; w < workers; w++ {
		wg.Add(1)
		go func(w int) {
			defer wg.Done()
			for {
				mu.Lock()
				if infraMsg != "" || time.Now().After(deadline) || (len(queue) == 0 && inflight == 0) {
					mu.Unlock()
					return
				}
				if len(queue) == 0 {
					// a running worker may still die and hand back the rest of its chunk
					mu.Unlock()
					time.Sleep(50 * time.Millisecond)
					continue
				}
				c := queue[0]
				queue = queue[1:]
				inflight++
				widx++
				idx := widx
				mu.Unlock()
				j := &job{Property: id, Engine: p.Engine, Tier: tier, Seed: seed, From: c.from, To: c.to, ViolDir: violDir, Known: kn, Group: p.Group, NoShrink: os.Getenv("VERIF_NOSHRINK") != "",
					MaxSecs: int(time.Until(deadline).Seconds()) + 1}
				r := runWorker(b, j, idx, 1+idx%4, chunkTimeout)
				mu.Lock()
				inflight--
				if r.agg != nil {
					a := r.agg
					merged.Runs += a.Runs
					merged.Evals += a.Evals
					merged.NonTrivial += a.NonTrivial
					merged.SimNanos += a.SimNanos
					merged.Yields += a.Yields
					// distinct counts are kept exactly up to distinctCap entries per measure; beyond that they are lower bounds
					addCapped := func(m map[uint64]bool, vs []uint64) {
						for _, v := range vs {
							if len(m) >= distinctCap {
								capped = true
								return
							}
							m[v] = true
						}
					}
					addCapped(wl, a.Workloads)
					addCapped(sch, a.Scheds)
					addCapped(sts, a.States)
					addCapped(prs, a.Pairs)
					for k, v := range a.Probes {
						merged.Probes[k] += v
					}
					for k, v := range a.Faults {
						merged.Faults[k] += v
					}
					for k, v := range a.KnownHits {
						merged.KnownHits[k] += v
					}
					if len(merged.Samples) < 4 {
						merged.Samples = append(merged.Samples, a.Samples...)
					}
					founds = append(founds, a.Found...)
					if a.Partial && a.LastRun+1 < c.to && a.LastRun >= c.from {
						queue = append(queue, chunk{a.LastRun + 1, c.to})
					}
				}
				if r.exitCode != 0 || r.agg == nil {
					switch {
					case r.timedOut:
						infraMsg = fmt.Sprintf("worker for runs %d..%d killed by the watchdog after %v (last announced run %d)\n%s", c.from, c.to, chunkTimeout, r.lastRun, tail(r.stderr, 3000))
					default:
						class, isRace := raceClass(id, r.stderr)
						if !isRace && strings.Contains(r.stderr, "fatal error: concurrent map") {
							class, isRace = id+"/fatal-error/concurrent-map-access", true
						}
						if !isRace {
							infraMsg = fmt.Sprintf("worker for runs %d..%d failed with exit code %d (last announced run %d)\nstdout:\n%s\nstderr:\n%s", c.from, c.to, r.exitCode, r.lastRun, tail(r.stdout, 2000), tail(r.stderr, 4000))
							break
						}
						// a process death attributed to the announced run: replay file with a derived tape
						rf := &replayFile{Property: id, Engine: p.Engine, Seed: seed, Run: r.lastRun, Tape: nil,
							Sched: schedCfg{Seed: 0}, Class: class, Detail: "the worker process died during this run; see stderr", Stderr: tail(r.stderr, 6000),
							Note: "process-level failure (race detector / runtime fatal error): not shrunk in-process; the tape is derived from (verif_seed, property, run)"}
						file := filepath.Join(violDir, fmt.Sprintf("%s-%d-%d-crash.json", id, seed, r.lastRun))
						writeJSON(file, rf)
						isKnown := false
						for _, k := range kn {
							if k.Status == "known" && k.Property == id && k.Class == class {
								isKnown = true
							}
						}
						if isKnown {
							merged.KnownHits[class]++
						}
						crashFiles = append(crashFiles, found{Run: r.lastRun, Class: class, Detail: rf.Detail, File: file, Known: isKnown})
						merged.Runs++ // the run that died
						if r.lastRun+1 < c.to && r.lastRun >= c.from {
							queue = append(queue, chunk{r.lastRun + 1, c.to})
						}
					}
				}
				mu.Unlock()
			}
		}(w)
	}
	wg.Wait()
	if infraMsg != "" {
		infra("%s", infraMsg)
	}
	founds = append(founds, crashFiles...)
	merged.Workloads, merged.Scheds, merged.States, merged.Pairs = nil, nil, nil, nil
	nW, nS, nSt, nP := len(wl), len(sch), len(sts), len(prs)

	// report
	code := 0
	os.MkdirAll(filepath.Join(verifDir, "replays"), 0755)
	reported := map[string]bool{}
	var violPaths []string
	sort.Slice(founds, func(i, j int) bool { return founds[i].Run < founds[j].Run })
	nviol := 0
	for _, f := range founds {
		if f.Known || reported[f.Class] {
			continue
		}
		reported[f.Class] = true
		nviol++
		dst := filepath.Join(verifDir, "replays", filepath.Base(f.File))
		rb, _ := os.ReadFile(f.File)
		var rf replayFile
		json.Unmarshal(rb, &rf)
		// confirm in a fresh process
		ok := confirmReplay(b, &rf, kn)
		rf.Reproduced = &ok
		writeJSON(dst, &rf)
		fmt.Printf("violation class=%s run=%d fresh_replay_reproduced=%v\n  %s\n", f.Class, f.Run, ok, oneLine(rf.Detail, 600))
		fmt.Printf("VIOLATION property=%s replay=%s\n", id, dst)
		violPaths = append(violPaths, dst)
		code = 1
	}
	for _, k := range kn {
		if k.Status == "known" && k.Property == id {
			fmt.Printf("KNOWN-FINDING: property=%s %s [class %s; reproduced %d times in this run]\n", id, k.What, k.Class, merged.KnownHits[k.Class])
		}
	}
	wall := time.Since(start).Seconds()
	if os.Getenv("VERIF_NOEVIDENCE") == "" {
		writeEvidence(id, p, tier, seed, merged, nW, nS, nSt, nP, b, wall, nviol, kn, capped)
	}
	fmt.Printf("verif: %s %s: runs=%d executions=%d nontrivial=%d distinct(workloads=%d interleavings=%d states=%d nontrivial-pairs=%d) violations=%d wall=%.1fs\n",
		id, tier, merged.Runs, merged.Evals, merged.NonTrivial, nW, nS, nSt, nP, nviol, wall)
	if merged.Runs == 0 {
		infra("no run was executed")
	}
	return code
}

func tail(s string, n int) string {
	if len(s) > n {
		return "…" + s[len(s)-n:]
	}
	return s
}

func oneLine(s string, n int) string {
	s = strings.ReplaceAll(s, "\n", " ")
	if len(s) > n {
		s = s[:n] + "…"
	}
	return s
}

func writeJSON(path string, v interface{}) {
	b, err := json.MarshalIndent(v, "", " ")
	if err != nil {
		infra("%v", err)
	}
	if err := os.WriteFile(path, b, 0644); err != nil {
		infra("%v", err)
	}
}

// confirmReplay re-executes a replay file in a fresh process and reports whether the same class shows again.
func confirmReplay(b *built, rf *replayFile, kn []known) bool {
	j := &job{Property: rf.Property, Engine: rf.Engine, Tier: "quick", Seed: rf.Seed, Replay: rf, Known: kn, Group: props[rf.Property].Group}
	// the race detector's shadow memory keeps a bounded history, so a race report is not guaranteed on
	// every execution of the same schedule: process-level failures get three attempts
	for attempt := 0; attempt < 3; attempt++ {
		r := runWorker(b, j, 100000+rf.Run*4+attempt, 2, 10*time.Minute)
		if r.agg != nil && r.agg.Replayed != nil {
			// the fresh replay ran with tracing on: a replay file that was not shrunk gets its schedule trace from here
			if len(rf.Trace) == 0 && r.agg.Replayed.Reproduced {
				rf.Trace = r.agg.Replayed.Trace
				if rf.Scenario == nil {
					rf.Scenario = r.agg.Replayed.Scenario
				}
			}
			return r.agg.Replayed.Reproduced
		}
		// process-level failures reproduce by dying the same way
		if c, ok := raceClass(rf.Property, r.stderr); ok && c == rf.Class {
			return true
		}
		if strings.Contains(rf.Class, "fatal-error") && strings.Contains(r.stderr, "fatal error") {
			return true
		}
	}
	return false
}

// ---------------------------------------------------------------- replay

func cmdReplay(args []string) int {
	if len(args) < 1 {
		fmt.Fprintln(os.Stderr, "usage: verif replay <file>")
		return 2
	}
	rb, err := os.ReadFile(args[0])
	if err != nil {
		infra("%v", err)
	}
	var rf replayFile
	if err := json.Unmarshal(rb, &rf); err != nil {
		infra("%v", err)
	}
	p, ok := props[rf.Property]
	if !ok {
		infra("unknown property %s", rf.Property)
	}
	b := build(p.Engine, p.Race)
	j := &job{Property: rf.Property, Engine: rf.Engine, Tier: "quick", Seed: rf.Seed, Replay: &rf, Group: p.Group}
	os.Setenv("VERIF_SHOW_TRACE", os.Getenv("VERIF_SHOW_TRACE"))
	r := runWorker(b, j, 1, 2, 10*time.Minute)
	fmt.Print(r.stdout)
	reproduced := false
	if r.agg != nil && r.agg.Replayed != nil {
		reproduced = r.agg.Replayed.Reproduced
		fmt.Printf("replay digest %s\n", r.agg.Replayed.Digest)
	} else {
		fmt.Fprint(os.Stderr, tail(r.stderr, 6000))
		if c, ok := raceClass(rf.Property, r.stderr); ok && c == rf.Class {
			reproduced = true
		}
	}
	if reproduced {
		fmt.Printf("VIOLATION property=%s replay=%s\n", rf.Property, args[0])
		return 1
	}
	fmt.Printf("replay of %s: class %s did not occur on the current tree\n", args[0], rf.Class)
	return 0
}

// ---------------------------------------------------------------- evidence

func writeEvidence(id string, p propInfo, tier string, seed uint64, m *agg, nW, nS, nSt, nP int, b *built, wall float64, nviol int, kn []known, capped bool) {
	zero := []string{}
	for _, name := range p.Probes {
		if m.Probes[name] == 0 {
			zero = append(zero, name)
		}
	}
	distinct := nP
	samples := m.Samples
	if len(samples) == 0 {
		samples = []interface{}{"(no sample recorded)"}
	}
	if len(samples) > 3 {
		samples = samples[:3]
	}
	knownHits := map[string]int{}
	for k, v := range m.KnownHits {
		knownHits[k] = v
	}
	cov := map[string]interface{}{
		"evaluations":               m.Evals,
		"distinct_nontrivial":       distinct,
		"rule":                      p.Rule,
		"samples":                   samples,
		"simulated_runs":            m.Runs,
		"runs_per_hour":             int(float64(m.Runs) / wall * 3600),
		"executions_per_hour":       int(float64(m.Evals) / wall * 3600),
		"simulated_seconds":         float64(m.SimNanos) / 1e9,
		"yields_executed":           m.Yields,
		"fault_kinds_fired":         m.Faults,
		"probes":                    m.Probes,
		"probes_at_zero":            zero,
		"distinct_workloads":        nW,
		"distinct_interleavings":    nS,
		"distinct_state_signatures": nSt,
		"nontrivial_executions":     m.NonTrivial,
		"components_real":           p.Real,
		"components_simulated":      p.Simulated,
		"instrumentation":           b.instr,
		"known_findings_reproduced": knownHits,
		"seeds":                     []uint64{seed},
		"exhaustive":                false,
	}
	ev := map[string]interface{}{
		"property_id": id,
		"tier":        tier,
		"seed":        int64(seed),
		"level":       p.Level,
		"coverage":    cov,
		"assumptions": p.Assumptions,
		"wall_s":      wall,
		"violations":  nviol,
	}
	os.MkdirAll(filepath.Join(verifDir, "evidence"), 0755)
	writeJSON(filepath.Join(verifDir, "evidence", id+".json"), ev)
}
